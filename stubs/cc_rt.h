/* cc_rt.h — runtime for C emitted by cxx2c.
 * Everything here is an ASSUMED contract of the C++ standard library (trusted base):
 * few-line executable models that assert the library's own precondition first, so a
 * violated library precondition shows up as a named obligation of the caller.
 */
#ifndef CC_RT_H
#define CC_RT_H
#include <stddef.h>
#include <stdint.h>

#ifndef CC_CBMC
/* native build (translation self-check): obligations become run-time failures */
#include <stdio.h>
#include <stdlib.h>
static void cc_native_fail(const char* m){ fprintf(stderr,"OBLIGATION-FAILED: %s\n",m); exit(3); }
#define __CPROVER_assert(c,m) do{ if(!(c)) cc_native_fail(m); }while(0)
#define __CPROVER_assume(c) do{ if(!(c)) { fprintf(stderr,"ASSUME-FALSE\n"); exit(4);} }while(0)
#endif

#define CC_SRC_ASSERT(c) __CPROVER_assert((c), "source-level assert()")
#define CC_THROWS(c,m)   __CPROVER_assert((c), m)
/* capacity of the container model: by default exceeding it is reported (the check's bound is too small);
   with -DCC_CAP_ASSUME paths that outgrow the model are cut instead (for code that grows a container without bound) */
#ifndef CC_POOL
#define CC_POOL 8   /* objects per allocation pool (make_shared / make_unique of repository records) */
#endif
#ifdef CC_SIZE_INV
#define CC_SIZE_INV_ASSUME(c) __CPROVER_assume(c)
#else
#define CC_SIZE_INV_ASSUME(c) ((void)0)
#endif
#ifdef CC_CAP_ASSUME
#define CC_CAP_CHECK(c) __CPROVER_assume(c)
#else
#define CC_CAP_CHECK(c) __CPROVER_assert((c), "capacity bound of the check exceeded")
#endif
#define CC_MIN(a,b) ((b) < (a) ? (b) : (a))
#define CC_MAX(a,b) ((a) < (b) ? (b) : (a))

typedef _Bool cc_bool;

/* ---------- <cctype>, glibc "C" locale, defined for -128..255 (DESIGN 3.6) ---------- */
static inline int cc_isspace(int c){ return c==' ' || (c>=9 && c<=13); }
static inline int cc_isdigit(int c){ return c>='0' && c<='9'; }
static inline int cc_isalpha(int c){ return (c>='a' && c<='z') || (c>='A' && c<='Z'); }
static inline int cc_isupper(int c){ return (c>='A' && c<='Z'); }
static inline int cc_islower(int c){ return (c>='a' && c<='z'); }
static inline int cc_isalnum(int c){ return cc_isalpha(c) || cc_isdigit(c); }

/* ---------- std::string_view ---------- */
typedef struct { const char* ptr; size_t len; } sv_t;
static inline sv_t sv_make(const char* p, size_t n){ sv_t s; s.ptr=p; s.len=n; return s; }
static inline sv_t sv_empty_make(void){ sv_t s; s.ptr=(const char*)0; s.len=0; return s; }
static inline size_t sv_size(sv_t s){ return s.len; }
static inline size_t sv_length(sv_t s){ return s.len; }
static inline cc_bool sv_empty(sv_t s){ return s.len==0; }
static inline const char* sv_data(sv_t s){ return s.ptr; }
static inline char sv_at(sv_t s, size_t i){
  CC_THROWS(i < s.len, "string_view::at throws std::out_of_range");
  return s.ptr[i];
}
static inline char sv_index(sv_t s, size_t i){
  __CPROVER_assert(i < s.len, "string_view::operator[] index < size() (else UB)");
  return s.ptr[i];
}
static inline char sv_front(sv_t s){ __CPROVER_assert(s.len>0,"string_view::front on empty (UB)"); return s.ptr[0]; }
static inline char sv_back(sv_t s){ __CPROVER_assert(s.len>0,"string_view::back on empty (UB)"); return s.ptr[s.len-1]; }
static inline sv_t sv_substr(sv_t s, size_t pos, size_t n){
  CC_THROWS(pos <= s.len, "string_view::substr throws std::out_of_range");
  sv_t r; r.ptr = s.ptr + pos; r.len = (n < s.len - pos) ? n : s.len - pos; return r;
}
#define SV_NPOS ((size_t)-1)
/* string_view::find_first_not_of / find_last_not_of (character set given as a view): library semantics, trusted runtime */
static inline cc_bool sv_has_char_(sv_t set, char c){ cc_bool f = 0; for (size_t k = 0; k < set.len; ++k) if (set.ptr[k] == c) f = 1; return f; }
static inline size_t sv_find_first_not_of(sv_t s, sv_t set){ size_t r = SV_NPOS; for (size_t i = 0; i < s.len; ++i) if (r == SV_NPOS && !sv_has_char_(set, s.ptr[i])) r = i; return r; }
static inline size_t sv_find_last_not_of(sv_t s, sv_t set){ size_t r = SV_NPOS; for (size_t i = 0; i < s.len; ++i) if (!sv_has_char_(set, s.ptr[i])) r = i; return r; }

/* ---------- std::optional<T> ---------- */
#define CC_DEFINE_OPT(NAME,T) \
  typedef struct { cc_bool has; T val; } NAME; \
  static inline NAME NAME##_none(void){ NAME o; o.has=0; return o; } \
  static inline NAME NAME##_some(T v){ NAME o; o.has=1; o.val=v; return o; } \
  static inline T NAME##_value(NAME o){ CC_THROWS(o.has,"optional::value throws bad_optional_access"); return o.val; } \
  static inline T NAME##_deref(NAME o){ __CPROVER_assert(o.has,"optional::operator* on empty (UB)"); return o.val; }

/* ---------- std::pair<A,B> ---------- */
#define CC_DEFINE_PAIR(NAME,A,B) typedef struct { A first; B second; } NAME; \
  static inline NAME NAME##_make(A a, B b){ NAME p; p.first=a; p.second=b; return p; }

/* ---------- std::vector<T> as capacity-bounded array ----------
 * 'iter' is the ghost "range-for in progress" counter: structural modification while
 * it is non-zero is iterator invalidation (UB in C++), reported as an obligation. */
#define CC_DEFINE_VEC(NAME,T,CAP) \
  typedef struct { T data[CAP]; size_t size; int iter; } NAME; \
  static inline NAME NAME##_new(void){ NAME v; v.size=0; v.iter=0; return v; } \
  static inline size_t NAME##_size(const NAME* v){ CC_SIZE_INV_ASSUME(v->size <= (CAP)); return v->size; } \
  static inline cc_bool NAME##_empty(const NAME* v){ return v->size==0; } \
  static inline void NAME##_push_back(NAME* v, T x){ \
    __CPROVER_assert(v->iter==0,"vector modified during range-for (iterator invalidation)"); \
    CC_CAP_CHECK(v->size < (CAP)); \
    v->data[v->size]=x; v->size=v->size+1; } \
  static inline void NAME##_append_all(NAME* v, const NAME* src){ \
    __CPROVER_assert(v->iter==0,"vector modified during range-for (iterator invalidation)"); \
    CC_CAP_CHECK(v->size + src->size <= (CAP)); \
    size_t n0_ = v->size; for(size_t k_=0;k_<(CAP);++k_){ if(k_<src->size && n0_+k_<(CAP)) v->data[n0_+k_]=src->data[k_]; } v->size = n0_ + src->size; } \
  static inline void NAME##_pop_back(NAME* v){ \
    __CPROVER_assert(v->iter==0,"vector modified during range-for (iterator invalidation)"); \
    __CPROVER_assert(v->size>0,"vector::pop_back on empty (UB)"); v->size=v->size-1; } \
  static inline void NAME##_clear(NAME* v){ \
    __CPROVER_assert(v->iter==0,"vector modified during range-for (iterator invalidation)"); v->size=0; } \
  /* model invariant size <= capacity (opt-in, -DCC_SIZE_INV): every operation that grows the vector asserts it, symbolic inputs are cut to it here */ \
  static inline T NAME##_at(const NAME* v, size_t i){ CC_SIZE_INV_ASSUME(v->size <= (CAP)); CC_THROWS(i<v->size,"vector::at throws std::out_of_range"); return v->data[i]; } \
  static inline T NAME##_get(const NAME* v, size_t i){ CC_SIZE_INV_ASSUME(v->size <= (CAP)); __CPROVER_assert(i<v->size,"vector::operator[] index < size() (else UB)"); return v->data[i]; } \
  static inline T NAME##_back(const NAME* v){ __CPROVER_assert(v->size>0,"vector::back on empty (UB)"); return v->data[v->size-1]; } \
  static inline T NAME##_front(const NAME* v){ __CPROVER_assert(v->size>0,"vector::front on empty (UB)"); return v->data[0]; } \
  static inline void NAME##_erase_at(NAME* v, size_t i){ \
    __CPROVER_assert(v->iter==0,"vector modified during range-for (iterator invalidation)"); \
    __CPROVER_assert(i<v->size,"vector::erase position valid (else UB)"); \
    for(size_t k_=0;k_<(CAP);++k_){ if(k_>=i && k_+1<v->size) v->data[k_]=v->data[k_+1]; } v->size=v->size-1; } \
  static inline void NAME##_insert_at(NAME* v, size_t i, T x){ \
    __CPROVER_assert(v->iter==0,"vector modified during range-for (iterator invalidation)"); \
    __CPROVER_assert(i<=v->size,"vector::insert position valid (else UB)"); \
    CC_CAP_CHECK(v->size < (CAP)); \
    for(size_t k_=(CAP);k_>0;--k_){ if(k_-1>i && k_-1<=v->size) v->data[k_-1]=v->data[k_-2]; } v->data[i]=x; v->size=v->size+1; } \
  static inline void NAME##_erase_range(NAME* v, size_t i, size_t j){ \
    __CPROVER_assert(v->iter==0,"vector modified during range-for (iterator invalidation)"); \
    __CPROVER_assert(i<=j && j<=v->size,"vector::erase(first,last) range valid (else UB)"); \
    for(size_t k_=0;k_<(CAP);++k_){ if(k_>=i && k_+(j-i)<v->size) v->data[k_]=v->data[k_+(j-i)]; } v->size=v->size-(j-i); } \
  /* list::splice(where, same list, what): move element `what` in front of position `where` */ \
  static inline void NAME##_splice1(NAME* v, size_t where, size_t what){ \
    __CPROVER_assert(what < v->size && where <= v->size,"list::splice positions valid (else UB)"); \
    T x_ = v->data[what]; size_t w_ = (what < where) ? where - 1 : where; \
    for(size_t k_=0;k_<(CAP);++k_){ if(k_>=what && k_+1<v->size) v->data[k_]=v->data[k_+1]; } \
    for(size_t k_=(CAP);k_>0;--k_){ if(k_-1>w_ && k_-1<v->size) v->data[k_-1]=v->data[k_-2]; } v->data[w_]=x_; } \
  static inline void NAME##_resize(NAME* v, size_t n, T x){ \
    CC_CAP_CHECK(n <= (CAP)); \
    for(size_t k_=0;k_<(CAP);++k_){ if(k_>=v->size && k_<n) v->data[k_]=x; } v->size=n; }

/* ---------- vector<scalar> extras: find / reverse / (n,val) constructor ---------- */
#define CC_DEFINE_VEC_SCALAR(NAME,T,CAP) \
  static inline size_t NAME##_find(const NAME* v, T x){ size_t r_ = v->size; \
    for(size_t k_=(CAP);k_>0;--k_){ if(k_-1<v->size && v->data[k_-1]==x) r_=k_-1; } return r_; } \
  static inline void NAME##_reverse(NAME* v){ NAME c_ = *v; \
    for(size_t k_=0;k_<(CAP);++k_){ if(k_<c_.size) v->data[k_]=c_.data[c_.size-1-k_]; } } \
  static inline NAME NAME##_filled(size_t n, T x){ NAME v; v.iter=0; \
    CC_CAP_CHECK(n <= (CAP)); \
    for(size_t k_=0;k_<(CAP);++k_){ v.data[k_]=x; } v.size=n; return v; }

/* ---------- std::unordered_set<scalar> as duplicate-free array (iteration order = insertion order;
 *            the real order is unspecified, specs compare results as sets) ---------- */
#define CC_DEFINE_USET(NAME,T,CAP) \
  typedef struct { T data[CAP]; size_t size; int iter; } NAME; \
  static inline NAME NAME##_new(void){ NAME v; v.size=0; v.iter=0; return v; } \
  static inline size_t NAME##_size(const NAME* v){ return v->size; } \
  static inline cc_bool NAME##_empty(const NAME* v){ return v->size==0; } \
  static inline size_t NAME##_find(const NAME* v, T x){ size_t r_ = v->size; \
    for(size_t k_=(CAP);k_>0;--k_){ if(k_-1<v->size && v->data[k_-1]==x) r_=k_-1; } return r_; } \
  static inline cc_bool NAME##_contains(const NAME* v, T x){ return NAME##_find(v,x) != v->size; } \
  static inline void NAME##_insert(NAME* v, T x){ \
    __CPROVER_assert(v->iter==0,"unordered_set modified during range-for (iterator invalidation)"); \
    if(!NAME##_contains(v,x)){ CC_CAP_CHECK(v->size < (CAP)); v->data[v->size]=x; v->size=v->size+1; } } \
  static inline void NAME##_erase(NAME* v, T x){ \
    __CPROVER_assert(v->iter==0,"unordered_set modified during range-for (iterator invalidation)"); \
    size_t i_ = NAME##_find(v,x); if(i_ != v->size){ \
      for(size_t k_=0;k_<(CAP);++k_){ if(k_>=i_ && k_+1<v->size) v->data[k_]=v->data[k_+1]; } v->size=v->size-1; } } \
  static inline void NAME##_clear(NAME* v){ v->size=0; } \
  static inline NAME NAME##_of1(T a){ NAME v = NAME##_new(); NAME##_insert(&v,a); return v; } \
  static inline NAME NAME##_of2(T a, T b){ NAME v = NAME##_of1(a); NAME##_insert(&v,b); return v; }

/* ---------- std::unordered_map<scalar,scalar> as association array with unique keys ---------- */
#define CC_DEFINE_UMAP(NAME,K,V,CAP) \
  typedef struct { K keys[CAP]; V vals[CAP]; size_t size; int iter; } NAME; \
  static inline NAME NAME##_new(void){ NAME m; m.size=0; m.iter=0; return m; } \
  static inline size_t NAME##_size(const NAME* m){ return m->size; } \
  static inline cc_bool NAME##_empty(const NAME* m){ return m->size==0; } \
  static inline size_t NAME##_find(const NAME* m, K k){ size_t r_ = m->size; \
    for(size_t k_=(CAP);k_>0;--k_){ if(k_-1<m->size && m->keys[k_-1]==k) r_=k_-1; } return r_; } \
  static inline cc_bool NAME##_contains(const NAME* m, K k){ return NAME##_find(m,k) != m->size; } \
  static inline V NAME##_at(const NAME* m, K k){ size_t i_ = NAME##_find(m,k); \
    CC_THROWS(i_ != m->size,"unordered_map::at throws std::out_of_range"); return m->vals[i_]; } \
  static inline void NAME##_emplace(NAME* m, K k, V v){ \
    __CPROVER_assert(m->iter==0,"unordered_map modified during range-for (iterator invalidation)"); \
    if(!NAME##_contains(m,k)){ __CPROVER_assert(m->size < (CAP),"capacity bound of the check exceeded"); m->keys[m->size]=k; m->vals[m->size]=v; m->size=m->size+1; } } \
  static inline void NAME##_erase(NAME* m, K k){ \
    __CPROVER_assert(m->iter==0,"unordered_map modified during range-for (iterator invalidation)"); \
    size_t i_ = NAME##_find(m,k); if(i_ != m->size){ \
      for(size_t k_=0;k_<(CAP);++k_){ if(k_>=i_ && k_+1<m->size){ m->keys[k_]=m->keys[k_+1]; m->vals[k_]=m->vals[k_+1]; } } m->size=m->size-1; } } \
  static inline void NAME##_clear(NAME* m){ m->size=0; } \
  /* operator[]: index of the entry for k, value-initialised and inserted when absent (insertion = possible rehash) */ \
  static inline size_t NAME##_ref_index(NAME* m, K k){ size_t i_ = NAME##_find(m,k); \
    if(i_ == m->size){ __CPROVER_assert(m->iter==0,"unordered_map::operator[] inserts during range-for (iterator invalidation)"); \
      __CPROVER_assert(m->size < (CAP),"capacity bound of the check exceeded"); m->keys[m->size]=k; m->vals[m->size]=(V)0; m->size=m->size+1; } \
    return i_; }

/* ---------- std::set<std::pair<A,B>> (static lookup tables) ---------- */
#define CC_DEFINE_PSET(NAME,A,B,CAP) \
  typedef struct { A a[CAP]; B b[CAP]; size_t size; int iter; } NAME; \
  static inline cc_bool NAME##_contains(const NAME* s, A x, B y){ cc_bool r_ = 0; \
    for(size_t k_=0;k_<(CAP);++k_){ if(k_<s->size && s->a[k_]==x && s->b[k_]==y) r_=1; } return r_; } \
  static inline size_t NAME##_size(const NAME* s){ return s->size; }

#endif
