#!/usr/bin/env python3
"""C05 oracle, independent of RSToken.cpp: operator precedence levels and associativity read
mechanically from the %left/%right declarations of RSParserImpl.y (later line = binds tighter)."""
import re, sys
repo = sys.argv[1]
text = open(repo + '/ccl/rslang/src/RSParserImpl.y').read()
text = text.split('%%')[0]
text = re.sub(r'//[^\n]*', '', text)
level = 0; prec = {}; assoc = {}
for m in re.finditer(r'%(left|right|nonassoc)\b([^%]*)', text):
    names = re.findall(r'\b[A-Z_][A-Z_0-9]*\b', m.group(2))
    if not names: continue
    level += 1
    for n in names: prec[n] = level; assoc[n] = m.group(1)
if not {'PLUS', 'MULTIPLY', 'AND', 'OR', 'UNION', 'DECART'} <= set(prec):
    sys.stderr.write('pregen C05: precedence declarations not found in RSParserImpl.y\n'); sys.exit(2)
print('/* generated from RSParserImpl.y: %d precedence levels */' % level)
print('static int y_prec(unsigned int id){')
for n, l in sorted(prec.items(), key=lambda x: x[1]):
    print('#ifdef TokenID_%s\n  if (id == TokenID_%s) return %d;\n#endif' % (n, n, l))
print('  return 0;\n}')
print('static int y_right_assoc(unsigned int id){')
for n, a in sorted(assoc.items()):
    if a == 'right': print('#ifdef TokenID_%s\n  if (id == TokenID_%s) return 1;\n#endif' % (n, n))
print('  return 0;\n}')

# ---- second oracle, independent of RSToken.cpp: the literal rules of the ASCII lexer ("text" { return TokenID::NAME; })
lex = open(repo + '/ccl/rslang/src/AsciiLexerImpl.l').read()
rules = re.findall(r'^"((?:[^"\\]|\\.)*)"\s*\{\s*return\s+TokenID::([A-Z_0-9]+)\s*;\s*\}', lex, re.M)
if len(rules) < 30 or not any(n == 'LESSER' for _, n in rules):
    sys.stderr.write('pregen C05: literal rules not found in AsciiLexerImpl.l\n'); sys.exit(2)
print('/* generated from AsciiLexerImpl.l: %d literal rules */' % len(rules))
print('#define LEX_N %d' % len(rules))
print('static unsigned int lex_id(int k){')
for k, (t, n) in enumerate(rules):
    print('#ifdef TokenID_%s\n  if (k == %d) return TokenID_%s;\n#endif' % (n, k, n))
print('  return 0xffffffffu;\n}')
print('static const char* lex_text(int k){')
for k, (t, n) in enumerate(rules):
    c = t.replace('\\', '\\\\').replace('"', '\\"') if False else t
    # the rule text is a quoted RE/flex string: a backslash stands for itself before a letter; as a C literal it must be doubled
    c = c.replace('\\', '\\\\')
    print('  if (k == %d) return "%s";' % (k, c))
print('  return "";\n}')
