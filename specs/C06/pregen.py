#!/usr/bin/env python3
"""C06: the reduction actions of the generated parser (rslang/src/RSParserImpl.cpp — the file that is compiled, not the .y),
read mechanically on every run.  Every `case N:` of the reduction switch whose statement has the shape
    yylhs.value = Helper(arg, ...);          arg ::= TokenID::NAME | yystack_[k].value
becomes one case of the macro GR_DISPATCH: the same call on the harness' argument nodes, yystack_[k] being the right-hand
side symbol number (len - 1 - k) with len = yyr2_[N] (the table the generated driver pops the stack by).
Dropped (listed in GR_SKIPPED): actions that produce no node (state->Finalize..., state->OnError ... YYABORT) and the one
action that needs the parser state (TupleDeclaration(state, ...)).  Any other shape aborts (exit 2)."""
import re, sys
repo = sys.argv[1]
text = open(repo + '/ccl/rslang/src/RSParserImpl.cpp').read()
m = re.search(r'RSParserImpl::yyr2_\[\]\s*=\s*\{(.*?)\};', text, re.S)
if not m: sys.stderr.write('pregen C06: yyr2_ not found\n'); sys.exit(2)
r2 = [int(x) for x in re.findall(r'-?\d+', m.group(1))]
cases = re.findall(r'\n\s*case (\d+): //([^\n]*)\n(?:#line[^\n]*\n)?(.*?)\n#line', text, re.S)
if len(cases) < 40: sys.stderr.write('pregen C06: only %d reduction cases found\n' % len(cases)); sys.exit(2)
# which right-hand-side symbols are single tokens (leaf nodes made by the lexer): terminals, and nonterminals every alternative of
# which is one such symbol passed through by the default action (binary_predicate, quantifier, RPE ...).  Read from RSParserImpl.y;
# this is an assumption about the ARGUMENTS of an action (stated in the harness), not part of the checked text.
ytext = open(repo + '/ccl/rslang/src/RSParserImpl.y').read()
parts = ytext.split('\n%%')
if len(parts) < 2: sys.stderr.write('pregen C06: no grammar section in RSParserImpl.y\n'); sys.exit(2)
g = re.sub(r'//[^\n]*', '', parts[1]); g = re.sub(r'\{[^{}]*\}', ' @ACTION ', g)
rules = {}
for mr in re.finditer(r'(\w+)\s*:(.*?);', g, re.S):
    rules[mr.group(1)] = [alt.split() for alt in mr.group(2).split('|')]
if len(rules) < 20: sys.stderr.write('pregen C06: grammar of RSParserImpl.y not understood\n'); sys.exit(2)
tokenlike = set()
changed = True
def is_tok(x): return (x not in rules and x.isupper()) or x in tokenlike
while changed:
    changed = False
    for name, alts in rules.items():
        if name in tokenlike: continue
        ok = all(('error' in alt) or (len(alt) == 1 and is_tok(alt[0])) for alt in alts) and any('error' not in alt for alt in alts)
        if ok: tokenlike.add(name); changed = True
disp = []; skipped = []
for num, comment, body in cases:
    n = int(num); stmt = ' '.join(body.split())
    if n >= len(r2): sys.stderr.write('pregen C06: rule %d outside yyr2_\n' % n); sys.exit(2)
    mm = re.fullmatch(r'\{ yylhs\.value = (\w+)\((.*)\); ?\}', stmt)
    if not mm:
        if re.fullmatch(r'\{ if\(!state->\w+\((yystack_\[\d+\]\.value(, )?)+\)\) YYABORT; \}', stmt) or \
           re.fullmatch(r'\{ state->OnError\(ParseEID::\w+\); YYABORT; \}', stmt) or \
           re.fullmatch(r'\{ yylhs\.value = TupleDeclaration\(state, yystack_\[0\]\.value\); if \(!yylhs\.value\) YYABORT; \}', stmt):
            skipped.append(n); continue
        sys.stderr.write('pregen C06: reduction action %d has an unknown shape: %s\n' % (n, stmt)); sys.exit(2)
    args = []
    for a in [x.strip() for x in mm.group(2).split(',')]:
        t = re.fullmatch(r'TokenID::(\w+)', a); s = re.fullmatch(r'yystack_\[(\d+)\]\.value', a)
        if t: args.append('TokenID_' + t.group(1))
        elif s:
            k = int(s.group(1))
            if k >= r2[n]: sys.stderr.write('pregen C06: action %d reads below its own symbols\n' % n); sys.exit(2)
            args.append('GR_SYM(%d)' % (r2[n] - 1 - k))
        else: sys.stderr.write('pregen C06: reduction action %d has an unknown argument: %s\n' % (n, a)); sys.exit(2)
    syms = comment.split(':', 1)[1].split()
    if len(syms) != r2[n]: sys.stderr.write('pregen C06: rule %d: comment and yyr2_ disagree\n' % n); sys.exit(2)
    leaves = ' '.join('GR_LEAF(%d);' % i for i, x in enumerate(syms) if is_tok(x))
    disp.append((n, r2[n], leaves + ' res = GR_%s%d(%s)' % (mm.group(1), len(args), ', '.join(args)), comment.strip()))
if len(disp) < 30: sys.stderr.write('pregen C06: only %d node-producing actions\n' % len(disp)); sys.exit(2)
print('/* token-like nonterminals: %s */' % ' '.join(sorted(tokenlike)))
print('/* generated from RSParserImpl.cpp: %d node-producing reduction actions, %d without a node */' % (len(disp), len(skipped)))
print('#define GR_COUNT %d' % len(disp))
print('#define GR_MAXLEN %d' % max(d[1] for d in disp))
print('#define GR_SKIPPED "%s"' % ' '.join(str(x) for x in skipped))
print('#define GR_DISPATCH(sel, rule, len, res) switch (sel) { \\')
for i, (n, ln, call, comment) in enumerate(disp):
    print('  case %d: rule = %d; len = %d; %s; break; /* %s */ \\' % (i, n, ln, call, comment))
print('  default: break; }')

# ---- positions of MATH tokens: the user code of the generated lexer (rslang/header/MathLexerImpl.hpp, the compiled file) ----
# Range() and the action of the newline rule are turned into C expressions / one C statement by textual rules:
#   static_cast<StrPos>(E) -> ((int)(E));  columno() / columns() / lineno() -> lx_columno() ...;  matcher().first() / .last() -> lx_first() / lx_last()
# Anything else than these calls, `lineBase`, integer literals and + - ( ) = ; aborts.
def lx_c(e):
    e = re.sub(r'static_cast<\s*StrPos\s*>\s*\(', '((int)(', e)
    # every static_cast opened one extra parenthesis: close it after the matching one
    out = ''; depth = []; i = 0
    while i < len(e):
        if e.startswith('((int)(', i): out += '((int)('; depth.append(1); i += 7; continue
        c = e[i]
        if c == '(' and depth: depth[-1] += 1
        if c == ')' and depth:
            depth[-1] -= 1
            if depth[-1] == 0: out += '))'; depth.pop(); i += 1; continue
        out += c; i += 1
    e = out
    e = re.sub(r'matcher\(\)\s*\.\s*first\(\)', 'lx_first()', e); e = re.sub(r'matcher\(\)\s*\.\s*last\(\)', 'lx_last()', e)
    e = re.sub(r'\b(columno|columns|lineno)\(\)', r'lx_\1()', e)
    rest = re.sub(r'lx_(first|last|columno|columns|lineno)\(\)|\(int\)|\blineBase\b|\b\d+\b|[\s\+\-\(\)=;]', '', e)
    if rest: sys.stderr.write('pregen C06: lexer user code outside the translated subset: %r in %r\n' % (rest, e)); sys.exit(2)
    return e
hpp = open(repo + '/ccl/rslang/header/MathLexerImpl.hpp').read()
mr = re.search(r'StrRange\s+Range\(\)\s*const\s*\{\s*return\s+StrRange\s*\{(.*?),\s*\n(.*?)\n\s*\};\s*\}', hpp, re.S)
mn = re.search(r'case \d+: // rule MathLexerImpl\.l:\d+: \\n :\s*\n\{(.*?)\}\s*\n\s*break;', hpp, re.S)
if not mr or not mn: sys.stderr.write('pregen C06: Range() or the newline rule of MathLexerImpl.hpp not found\n'); sys.exit(2)
print('/* generated from MathLexerImpl.hpp: Range() and the action of the newline rule */')
print('#define LX_RANGE_START (%s)' % lx_c(' '.join(mr.group(1).split())))
print('#define LX_RANGE_FINISH (%s)' % lx_c(' '.join(mr.group(2).split())))
print('#define LX_ON_NEWLINE do { %s } while (0)' % lx_c(' '.join(mn.group(1).split())))
