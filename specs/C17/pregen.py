#!/usr/bin/env python3
"""C17 oracle for the printing of grammemes, independent of the TAG_NAMES table: the enumerators of `enum class Grammem`
(Morphology.h) in declaration order — a grammeme is printed under the name of its enumerator."""
import re, sys
repo = sys.argv[1]
text = open(repo + '/ccl/cclLang/include/ccl/lang/Morphology.h').read()
m = re.search(r'enum\s+class\s+Grammem\s*:\s*\w+\s*\{(.*?)\};', text, re.S)
if not m: sys.stderr.write('pregen C17: enum class Grammem not found\n'); sys.exit(2)
body = re.sub(r'//[^\n]*', '', m.group(1))
names = [re.sub(r'\s*=.*', '', x.strip()) for x in body.split(',') if x.strip()]
if len(names) < 30 or names[0] != 'invalid': sys.stderr.write('pregen C17: unexpected enumerators\n'); sys.exit(2)
print('/* generated from enum class Grammem: %d enumerators */' % len(names))
print('#define GRAM_N %d' % len(names))
print('static const char* gram_enumerator(int k){')
for k, n in enumerate(names): print('  if (k == %d) return "%s";' % (k, n))
print('  return "";\n}')
