"""Run one obligation group: goto-cc -> goto-instrument --dfcc -> cbmc; parse results."""
import json, os, re, resource, subprocess, time

STUBS = os.path.join(os.path.dirname(os.path.dirname(os.path.dirname(os.path.abspath(__file__)))), 'stubs')
MEM_BYTES = int(os.environ.get('VERIF_MEM_GB', '10')) * (1 << 30)

def _limits():
    resource.setrlimit(resource.RLIMIT_AS, (MEM_BYTES, MEM_BYTES))

def sh(cmd, timeout, cwd=None):
    t0 = time.time()
    # own process group, so that a timeout also kills the external SMT solver cbmc spawned
    p = subprocess.Popen(cmd, stdout=subprocess.PIPE, stderr=subprocess.PIPE, text=True, cwd=cwd,
                         preexec_fn=_limits, start_new_session=True)
    try:
        out, err = p.communicate(timeout=timeout)
        return p.returncode, out, err, time.time() - t0
    except subprocess.TimeoutExpired:
        import signal
        try: os.killpg(p.pid, signal.SIGKILL)
        except ProcessLookupError: pass
        try: out, err = p.communicate(timeout=10)
        except Exception: out, err = '', ''
        return 'timeout', out or '', err or '', time.time() - t0

class GroupResult:
    def __init__(self, group):
        self.group = group
        self.name = group.name
        self.status = 'undecided'      # pass | fail | undecided
        self.reason = ''
        self.seconds = 0.0
        self.backend = group.get('backend', 'sat')
        self.mode = group.get('mode', 'P')
        self.bound = group.get('bound', '')
        self.obligations = []          # dicts: id, desc, status, function, line
        self.failed = []
        self.vacuity_ok = None
        self.cmds = []
        self.log = ''
        self.trace_inputs = None
        self.stage = 'prove'
    def counts(self):
        real = [o for o in self.obligations if not o['desc'].startswith('vacuity probe')]
        return len(real), len([o for o in real if o['status'] == 'SUCCESS'])

CHECKS = ['--bounds-check', '--pointer-check', '--signed-overflow-check', '--div-by-zero-check',
          '--pointer-overflow-check', '--unsigned-overflow-check']

def cbmc_flags(group, extra_defs=None):
    f = ['--bounds-check', '--pointer-check', '--signed-overflow-check', '--div-by-zero-check']
    for c in group.lst('flags'):
        f.append('--' + c)
    if group.get('unwind'): f += ['--unwind', group.get('unwind')]
    if group.get('unwindset'): f += ['--unwindset', group.get('unwindset')]
    if group.get('unwind') or group.get('unwindset'): f += ['--unwinding-assertions']
    if group.get('objbits'): f += ['--object-bits', group.get('objbits')]
    be = group.get('backend', 'sat')
    if be == 'sat' and group.get('satsolver'): f += ['--sat-solver', group.get('satsolver')]
    if be == 'cvc5': f += ['--cvc5']
    elif be == 'z3': f += ['--z3']
    elif be == 'kissat': f += ['--external-sat-solver', 'kissat']
    elif be != 'sat': raise ValueError('backend ' + be)
    return f

def translate_unwindset(gb, spec):
    """'Fn#2:21,...' (loop ordinal in source order, as in the spec files) -> CBMC loop ids"""
    rc, out, err, dt = sh(['cbmc', gb, '--show-loops', '--json-ui'], 120)
    data = json.loads(out)
    loops = {}
    for item in data:
        if isinstance(item, dict) and 'loops' in item:
            for l in item['loops']:
                fn = l['sourceLocation'].get('function'); loops.setdefault(fn, []).append((int(l['sourceLocation'].get('line', 0)), l['name']))
    outp = []
    for part in spec.split(','):
        name, bound = part.rsplit(':', 1)
        if '#' in name:
            fn, n = name.split('#'); ls = sorted(loops.get(fn, []))
            if int(n) < 1 or int(n) > len(ls): continue   # loop structure changed: the default --unwind applies
            name = ls[int(n) - 1][1]
        outp.append('%s:%s' % (name, bound))
    return ','.join(outp)

def parse_json_ui(text):
    """cbmc --json-ui output -> (list of result dicts, verdict, messages)"""
    try:
        data = json.loads(text)
    except Exception:
        # truncated output (timeout): try to salvage nothing
        return None, None, []
    results = None; verdict = None; msgs = []
    for item in data:
        if not isinstance(item, dict): continue
        if 'result' in item: results = item['result']
        if 'cProverStatus' in item: verdict = item['cProverStatus']
        if 'messageText' in item: msgs.append(item['messageText'])
    return results, verdict, msgs

def run_group(spec, group, ctext_spliced, workdir, timeout, trace=False, tag=''):
    """compile + instrument + solve one group. Returns GroupResult."""
    r = GroupResult(group)
    base = os.path.join(workdir, group.name + ('.f' if trace else '') + tag)
    cfile = base + '.c'
    open(cfile, 'w').write(ctext_spliced)
    h = 'harness_' + group.name
    t0 = time.time()
    cmd = ['goto-cc', '-DCC_CBMC', '-I', STUBS, '--function', h, cfile, '-o', base + '.gb']
    r.cmds.append(' '.join(cmd))
    rc, out, err, dt = sh(cmd, 300)
    if rc != 0:
        r.reason = 'goto-cc failed: ' + (err or out)[-1500:]; r.seconds = time.time() - t0; r.log = err; return r
    enforce = group.get('enforce'); replace = group.lst('replace')
    loopc = group.get('loops', 'contracts') == 'contracts' and bool(re.search(r'__CPROVER_loop_invariant', ctext_spliced))
    gb = base + '.gb'
    if enforce or replace or loopc:
        cmd = ['goto-instrument', '--dfcc', h]
        if enforce: cmd += ['--enforce-contract', enforce]
        for g in replace: cmd += ['--replace-call-with-contract', g]
        if loopc: cmd += ['--apply-loop-contracts']
        cmd += [gb, base + '.i.gb']
        r.cmds.append(' '.join(cmd))
        rc, out, err, dt = sh(cmd, 600)
        if rc != 0:
            r.reason = 'goto-instrument failed: ' + (err + out)[-2500:]; r.seconds = time.time() - t0; r.log = err + out; return r
        gb = base + '.i.gb'
    flags = cbmc_flags(group)
    if group.get('unwindset') and '#' in group.get('unwindset'):
        try:
            us = translate_unwindset(gb, group.get('unwindset'))
        except Exception as e:
            r.reason = 'cannot map loop ordinals: %s' % e; r.seconds = time.time() - t0; return r
        flags[flags.index('--unwindset') + 1] = us
    cmd = ['cbmc', gb] + flags + ['--json-ui']
    if gb.endswith('.gb') and not gb.endswith('.i.gb'): cmd += ['--drop-unused-functions']
    if trace: cmd += ['--trace']
    r.cmds.append(' '.join(cmd))
    rc, out, err, dt = sh(cmd, timeout)
    if rc == 'timeout' and group.get('backend', 'sat') == 'sat' and '--sat-solver' not in cmd:
        # portfolio: the default SAT solver (minisat) occasionally gets stuck in the all-properties loop on an instance
        # another solver closes in a second (seen when an obligation FAILS); same formula, same bounds, second solver
        cmd2 = cmd + ['--sat-solver', 'cadical']
        r.cmds.append(' '.join(cmd2)); r.retried_with = 'cadical'
        rc, out, err, dt = sh(cmd2, timeout)
    r.seconds = time.time() - t0
    r.log = out[-200000:] if rc == 'timeout' else ''
    if rc == 'timeout':
        r.reason = 'solver timeout after %ds' % timeout; r.status = 'timeout'; return r
    results, verdict, msgs = parse_json_ui(out)
    alltext = '\n'.join(msgs)
    r.messages = msgs
    if results is None:
        r.reason = 'no result from cbmc (rc=%s): %s' % (rc, (alltext or err or out)[-1500:]); return r
    if re.search(r'ignoring (forall|exists)|Parse Error|SMT2 solver returned error', alltext + err):
        r.reason = 'back end did not decide quantified/SMT obligations: ' + '; '.join(m for m in msgs if re.search('ignoring|Parse Error|error', m))[:500]
        return r
    for p in results:
        o = {'id': p.get('property'), 'desc': p.get('description', ''), 'status': p.get('status'),
             'function': (p.get('sourceLocation') or {}).get('function'), 'line': (p.get('sourceLocation') or {}).get('line')}
        if trace and p.get('status') == 'FAILURE' and 'trace' in p: o['trace'] = p['trace']
        r.obligations.append(o)
    if loopc and not any('loop invariant' in o['desc'] or 'loop_invariant' in (o['id'] or '') for o in r.obligations):
        r.reason = 'loop contracts were supplied but no loop-invariant obligation was generated (dropped loop contract)'; return r
    vac = [o for o in r.obligations if o['desc'].startswith('vacuity probe')]
    real = [o for o in r.obligations if not o['desc'].startswith('vacuity probe')]
    if not real:
        r.reason = 'zero obligations generated'; return r
    r.failed = [o for o in real if o['status'] != 'SUCCESS']
    nobody = [o for o in r.failed if (o['desc'] or '').startswith('no body for callee')]
    if nobody:
        # every callee is either emitted from the repository or stubbed by the extractor: a missing body is a defect
        # of the machinery (runtime header / stub), never a verdict about the code
        r.failed = []; r.status = 'undecided'; r.reason = 'machinery defect: ' + '; '.join(sorted({o['desc'] for o in nobody}))[:300]; return r
    unw = [o for o in r.failed if (o['desc'] or '').startswith('unwinding assertion')]
    if unw and len(unw) == len(r.failed):
        # only the unwinding bound is exceeded: the bounded stand-in does not cover the code any more (or the harness
        # needs a larger bound) — undecided, never a violation
        r.failed = []; r.status = 'undecided'; r.reason = 'unwinding bound too small: ' + '; '.join(sorted({'%s (%s)' % (o['desc'], o['function']) for o in unw}))[:300]; return r
    if vac:
        r.vacuity_ok = all(o['status'] == 'FAILURE' for o in vac)
    if r.failed:
        r.status = 'fail'
    elif vac and not r.vacuity_ok:
        r.status = 'undecided'; r.reason = 'vacuity probe did not fail: the harness end is unreachable (contradictory assumptions?)'
    elif not vac and group.get('vacuity', 'required') == 'required':
        r.status = 'undecided'; r.reason = 'no vacuity probe in harness'
    else:
        r.status = 'pass'
    return r

def harness_inputs_from_trace(trace, prefix='in_'):
    """last assigned value of every harness lvalue named in_* in a cbmc JSON trace"""
    vals = {}
    for st in trace:
        if st.get('stepType') != 'assignment': continue
        lhs = st.get('lhs', '')
        if lhs == 'in_READY':        # harness marker: inputs are complete, the call under test follows
            break
        base = re.split(r'[\.\[]', lhs, 1)[0]
        if not base.startswith(prefix): continue
        v = st.get('value', {})
        flat = flatten_value(lhs, v)
        vals.update(flat)
    return vals

def flatten_value(lhs, v):
    out = {}
    lhs = re.sub(r'\[(\d+)l\]', r'[\1]', lhs)
    if 'data' in v and not isinstance(v.get('data'), (dict, list)):
        d = v['data']
        if isinstance(d, str): d = re.sub(r'(?<=\d)(ul|l|u|ll|ull)$', '', d)
        out[lhs] = d
    elif 'elements' in v:
        for e in v['elements']:
            out.update(flatten_value('%s[%s]' % (lhs, e.get('index')), e.get('value', {})))
    elif 'members' in v:
        for m in v['members']:
            out.update(flatten_value('%s.%s' % (lhs, m.get('name')), m.get('value', {})))
    elif 'name' in v and v['name'] == 'pointer':
        out[lhs] = v.get('data', 'ptr')
    return out
