"""Spec files: contracts kept outside /repo, spliced into the extracted C (DESIGN §4.5).

Format (line oriented; a section runs until the next line starting with '@'):

  @unit NAME                      unit description in /verif/units/NAME.json
  @use PATH                       import preludes/contracts/loop contracts of another spec file
  @prelude0                       C placed before the generated types (capacities, macros)
  @prelude                        C placed after the types: ghost state, spec functions
  @contract CNAME                 contract clauses spliced between declarator and body
  @loop CNAME N                   loop-contract clauses for the N-th loop of CNAME (source order)
  @group NAME key=value ...       one obligation group; body = C text defining `void HARNESS(void)`
  @end
Lines starting with '#!' are comments.
"""
import re, shlex

class SpecError(Exception):
    pass

class Group:
    def __init__(self, name, opts, body, specfile):
        self.name = name; self.opts = opts; self.body = body; self.specfile = specfile
    def get(self, k, d=None): return self.opts.get(k, d)
    def lst(self, k):
        v = self.opts.get(k, '')
        return [x for x in v.split(',') if x]

class Spec:
    def __init__(self, path):
        self.path = path
        self.unit = None
        self.prelude0 = []; self.prelude = []
        self.contracts = {}; self.loops = {}
        self.groups = []
        self.parse(open(path).read())

    def parse(self, text):
        cur = None; buf = []
        def close():
            nonlocal cur, buf
            if cur is None: return
            body = '\n'.join(buf).strip('\n')
            kind = cur[0]
            if kind == 'prelude0': self.prelude0.append(body)
            elif kind == 'prelude': self.prelude.append(body)
            elif kind == 'contract': self.contracts[cur[1]] = self.contracts.get(cur[1], '') + body + '\n'
            elif kind == 'loop': self.loops[(cur[1], int(cur[2]))] = body
            elif kind == 'group':
                opts = {}
                for kv in cur[2:]:
                    if '=' not in kv: raise SpecError('%s: bad group option %r' % (self.path, kv))
                    k, v = kv.split('=', 1); opts[k] = v
                self.groups.append(Group(cur[1], opts, body, self.path))
            cur = None; buf = []
        for line in text.split('\n'):
            if line.startswith('#!'): continue
            if line.startswith('@'):
                close()
                parts = shlex.split(line[1:])
                if not parts: continue
                if parts[0] == 'unit': self.unit = parts[1]
                elif parts[0] == 'use':
                    # import preludes, contracts and loop contracts (not groups, not the unit) of another spec
                    import os
                    other = Spec(os.path.join(os.path.dirname(self.path), parts[1]))
                    self.prelude0 += other.prelude0; self.prelude += other.prelude
                    self.imported = getattr(self, 'imported', set())
                    for k, v in other.contracts.items():
                        if k not in self.contracts: self.contracts[k] = v; self.imported.add(k)
                    for k, v in other.loops.items():
                        if k not in self.loops: self.loops[k] = v; self.imported.add(('L',) + k)
                    self.uses = getattr(self, 'uses', []) + [other.path]
                elif parts[0] == 'end': pass
                elif parts[0] in ('prelude0', 'prelude', 'contract', 'loop', 'group'):
                    cur = parts
                else:
                    raise SpecError('%s: unknown directive @%s' % (self.path, parts[0]))
            else:
                if cur is not None: buf.append(line)
        close()
        if not self.unit: raise SpecError('%s: no @unit' % self.path)

def splice(ctext, spec, group, fninfo):
    """insert contracts / loop contracts / preludes / the group's harness into generated C"""
    used = set()
    defs = ''.join('#define %s %s\n' % tuple(d.split('=', 1)) if '=' in d else '#define %s 1\n' % d for d in group.lst('defs'))
    def sub_contract(m):
        n = m.group(1)
        if n in spec.contracts:
            used.add(('c', n)); return spec.contracts[n].rstrip('\n')
        return ''
    def sub_loop(m):
        n, i = m.group(1), int(m.group(2))
        if (n, i) in spec.loops and group.get('loops', 'contracts') == 'contracts':
            used.add(('l', n, i)); return spec.loops[(n, i)]
        return ''
    # opaque types the spec's stubs mention but this extraction no longer produces (the repository stopped using them):
    # declare them, so that an unused stub does not make the whole check undecided
    have = set(re.findall(r'\}\s*(opq_\w+)\s*;', ctext))
    need = set(re.findall(r'\bopq_\w+\b', '\n'.join(spec.prelude) + group.body)) - have
    need = {x for x in need if not re.search(r'\b%s\s*\(' % re.escape(x), '\n'.join(spec.prelude) + group.body + ctext)}     # type names only, not stub function names
    fallback = ''.join('typedef struct { int id; } %s; /* not used by the extracted code any more */\n' % x for x in sorted(need))
    out = ctext.replace('/*@PRELUDE0@*/', defs + '\n'.join(spec.prelude0))
    if fallback: out = out.replace('/*@PRELUDE@*/', fallback + '/*@PRELUDE@*/', 1)
    out = out.replace('/*@PRELUDE@*/', '\n'.join(spec.prelude))
    out = re.sub(r'/\*@CONTRACT:(\w+)@\*/', sub_contract, out)
    out = re.sub(r'/\*@LOOP:(\w+):(\d+)@\*/', sub_loop, out)
    out = out.replace('/*@HARNESS@*/', '#define HARNESS harness_%s\n#ifndef VACUITY_POINT\n#define VACUITY_POINT __CPROVER_assert(0, "vacuity probe: harness end reachable")\n#endif\n%s\n' % (group.name, group.body))
    # every contract / loop contract must have found its function (renamed function => undecided, not pass)
    missing = []
    imported = getattr(spec, 'imported', set())
    for n in spec.contracts:
        if n in imported: continue
        if ('c', n) not in used and '/*@CONTRACT:%s@*/' % n not in ctext:
            missing.append('contract for unknown function %s' % n)
    for (n, i) in spec.loops:
        if ('L', n, i) in imported: continue
        if '/*@LOOP:%s:%d@*/' % (n, i) not in ctext:
            missing.append('loop contract for unknown loop %s #%d' % (n, i))
    return out, missing
