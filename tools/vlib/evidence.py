"""Evidence files and known findings."""
import json, os, re, subprocess

def load_known(root):
    p = os.path.join(root, 'known_findings.json')
    if not os.path.exists(p): return []
    return json.load(open(p)).get('findings', [])

def match_known(findings, pid, group, descs, inputs):
    """an OPEN finding suppresses a failure only if group, obligation text and (when given) the
    input key all match — a different violation of the same property is still reported"""
    for f in findings:
        if f.get('status') != 'open' or f.get('property') != pid: continue
        if f.get('group') and f['group'] != group: continue
        if f.get('obligation') and not all(re.search(f['obligation'], d) for d in descs): continue
        if f.get('inputs'):
            if inputs is None: continue
            ok = True
            for k, v in f['inputs'].items():
                if str(inputs.get(k)) != str(v): ok = False
            if not ok: continue
        return f
    return None

def tool_versions():
    out = {}
    for t, c in (('cbmc', ['cbmc', '--version']), ('cvc5', ['cvc5', '--version']), ('z3', ['z3', '--version']), ('clang', ['clang++', '--version'])):
        try: out[t] = subprocess.run(c, capture_output=True, text=True, timeout=20).stdout.strip().split('\n')[0]
        except Exception as e: out[t] = 'unavailable'
    return out

def write(root, pid, tier, seed, pconf, results, units, violations, known_hits, charchanged, undecided, wall):
    fu = []; samples = []; cmds = []; total = 0; disch = 0; unb = 0; unb_d = 0; bgroups = []; solver_s = 0.0
    vac = 0
    for (s, g, text, rep), r in results:
        n, d = r.counts(); total += n; disch += d; solver_s += r.seconds
        if r.vacuity_ok: vac += 1
        fi = rep['functions'].get(g.get('enforce') or '', {})
        entry = {'group': r.name, 'function_under_contract': g.get('enforce') or '(lemma over extracted bodies)',
                 'repo_function': fi.get('qname'), 'file_line': '%s:%s' % (fi.get('file'), fi.get('line')) if fi else None,
                 'callees_replaced_by_contract': g.lst('replace'),
                 'mode': ('P: discharged for all inputs and iterations (loop-free or loop contracts)' + (' within ' + g.get('note') if g.get('note') else '')) if r.mode == 'P' else 'B(%s): bounded stand-in (unwinding assertions), NOT counted as proved' % r.bound,
                 'back_end': r.backend, 'solver_seconds': round(r.seconds, 2), 'obligations': n, 'discharged': d,
                 'status': r.status, 'kind': g.get('kind', 'property')}
        if getattr(r, 'known', None): entry['known_finding'] = r.known.get('what')
        fu.append(entry)
        if r.mode == 'P': unb += n; unb_d += d
        else: bgroups.append({'group': r.name, 'bound': r.bound})
        if r.cmds and len(cmds) < 3: cmds.append(' && '.join(r.cmds))
        for o in r.obligations:
            if len(samples) < 12 and o['status'] == 'SUCCESS' and ('ensures' in o['desc'] or 'postcondition' in o['desc'].lower() or o['function'] and o['function'].startswith('harness_')) and not o['desc'].startswith('vacuity'):
                samples.append({'group': r.name, 'obligation': o['desc'], 'function': o['function'], 'line': o['line'], 'status': o['status']})
    all_pass = all(r.status == 'pass' for _, r in results) and not undecided
    level = pconf.get('level', 'proof')
    if level == 'proof' and (disch != total or not all_pass or unb == 0): level = 'other'
    tb = list(pconf.get('trusted_base', [])) + [
        'clang 14 parser/sema and its JSON AST dump; the cxx2c emitter (/verif/tools/cxx2c): C text is extracted mechanically from /repo on every run',
        'goto-cc / goto-instrument --dfcc / cbmc 6.11.0 and the back end named per group (minisat2 via cbmc, cvc5 1.0, z3 4.8.12)',
        'assumed contracts of the C++ standard library in /verif/stubs/cc_rt.h (string_view, vector, optional, <cctype> as glibc "C" locale)']
    dropped = {}; stubs = {}
    for u, v in units.items():
        if v is None: continue
        dropped[u] = v[1].get('dropped'); stubs[u] = v[1].get('auto_stubs')
    cov = {
        'obligations': unb, 'discharged': unb_d,
        'bounded_standins': {'groups': bgroups, 'obligations': total - unb, 'passed': disch - unb_d,
                             'note': 'bounded groups are reported here only; they are not part of obligations/discharged'},
        'checker_cmd': cmds[0] if cmds else 'n/a',
        'trusted_base': tb,
        'samples': samples or [{'note': 'no sample collected'}],
        'functions_under_contract': fu,
        'discharged_unbounded': unb_d, 'obligations_unbounded': unb,
        'bounded_groups': bgroups,
        'vacuity_probes_failed_as_intended': vac,
        'characterisation_changed': charchanged,
        'known_findings_hit': [k['what'] for k, _ in known_hits],
        'undecided': undecided,
        'solver_seconds_total': round(solver_s, 1),
        'tools': tool_versions(),
        'extraction': {'dropped_constructs': dropped, 'auto_stubs_assumed_effect_free': stubs,
                       'always_dropped': 'namespaces, access control, constexpr/inline/noexcept/[[nodiscard]]/explicit, const qualifiers, templates other than used instantiations, comments, exception propagation (each potentially throwing library call is an obligation instead), trivial destructors, move semantics (a move is a copy)'},
        'explanation': pconf.get('explanation', ''),
    }
    if level == 'other' and not cov['explanation']:
        cov['explanation'] = 'contract check with undischarged or bounded obligations; see functions_under_contract'
    if level == 'other' and (disch != total or not all_pass):
        cov['explanation'] += ' | this run: %d of %d obligations discharged; undecided=%s; violations=%s' % (disch, total, undecided, [v[0] for v in violations])
    ev = {'property_id': pid, 'tier': tier, 'seed': seed, 'level': level, 'coverage': cov,
          'assumptions': pconf.get('assumptions', []) + ['C extraction corresponds to the C++ semantics for the translated subset (mechanical, not proved)',
                                                        'machine arithmetic is NOT treated as mathematical: signed-overflow, bounds, pointer and div-by-zero checks are on in every group'],
          'wall_s': round(wall, 1), 'violations': len(violations)}
    os.makedirs(os.path.join(root, 'evidence'), exist_ok=True)
    json.dump(ev, open(os.path.join(root, 'evidence', pid + '.json'), 'w'), indent=1)
