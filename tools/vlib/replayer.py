"""Native replay of verifier counterexamples against the real C++ code (DESIGN §3.3 step 4).

replay/<ID>.cpp is compiled against /repo's working tree each time it is needed.  It gets
`<group> lhs=value ...` on the command line (the harness inputs named in_* read from the
CBMC trace), runs the REAL function and compares with an independent oracle.
exit 0 = violation confirmed on the real code, 1 = not confirmed, 2 = cannot replay this group.
"""
import json, os, subprocess

class Replayer:
    def __init__(self, pid, root, repo, work, log):
        self.pid = pid; self.root = root; self.repo = repo; self.work = work; self.log = log
        self.exe = None; self.err = None

    def build(self, group=None):
        # a group may have its own driver (replay/<ID>-<group>.cpp) when it needs other libraries than the property's main one
        own = os.path.join(self.root, 'replay', '%s-%s.cpp' % (self.pid, group)) if group else None
        if own and os.path.exists(own):
            if getattr(self, 'exe_for', None) == group and self.exe: return
            self.exe = None; self.err = None; self.exe_for = group
            src = own; cfgp = os.path.join(self.root, 'replay', '%s-%s.build.json' % (self.pid, group))
        else:
            if getattr(self, 'exe_for', None) is None and (self.exe or self.err): return
            self.exe = None; self.err = None; self.exe_for = None
            src = os.path.join(self.root, 'replay', self.pid + '.cpp')
            cfgp = os.path.join(self.root, 'replay', self.pid + '.build.json')
        if not os.path.exists(src):
            self.err = 'no replay driver for ' + self.pid; return
        cfg = json.load(open(cfgp)) if os.path.exists(cfgp) else {}
        exe = os.path.join(self.work, 'replay_' + self.pid + ('_' + group if (own and os.path.exists(own)) else ''))
        cmd = ['g++', '-std=c++20', '-O1', '-w', '-I', os.path.join(self.root, 'replay')]
        for i in cfg.get('includes', []): cmd += ['-I', i.replace('/repo', self.repo)]
        cmd += [src] + [s.replace('/repo', self.repo) for s in cfg.get('sources', [])] + cfg.get('flags', []) + ['-o', exe]
        p = subprocess.run(cmd, capture_output=True, text=True)
        if p.returncode != 0:
            self.err = 'replay driver does not build: ' + p.stderr[-1500:]
        else:
            self.exe = exe

    def run(self, group, inputs):
        self.build(group)
        if self.err: return None, self.err
        args = [self.exe, group] + ['%s=%s' % (k, v) for k, v in sorted(inputs.items())]
        try:
            p = subprocess.run(args, capture_output=True, text=True, timeout=120)
        except subprocess.TimeoutExpired:
            return None, 'replay timed out'
        out = (p.stdout + p.stderr)[-4000:]
        if p.returncode == 0: return True, out
        if p.returncode == 1: return False, out
        if p.returncode < 0 or p.returncode >= 128:
            return True, 'real code crashed (signal/abort, rc=%d): %s' % (p.returncode, out)
        return None, out

def replay_file(pid, path, work, repo, log):
    root = os.path.dirname(os.path.dirname(os.path.dirname(os.path.abspath(__file__))))
    rec = json.load(open(path))
    log('replay of %s: group %s, failed obligation(s): %s' % (path, rec['group'], '; '.join(rec['failed_obligations'])[:300]))
    if not rec.get('inputs'):
        log('the verifier gave no counterexample input; verifier output:')
        for o in rec.get('verifier_output', []): log('  %s (%s:%s)' % (o['desc'], o['function'], o['line']))
        return 1
    rp = Replayer(pid, root, repo, work, log)
    ok, out = rp.run(rec['group'], rec['inputs'])
    log(out)
    if ok: log('CONFIRMED on the real code'); return 1
    log('not confirmed on the current tree'); return 0
