#!/usr/bin/env python3
"""cxx2c — mechanical extraction of C from the clang JSON AST of ConceptCore C++ sources.

Trusted tooling (DESIGN.md §4).  Must-translate-or-abort: any AST construct without a
rule raises Unsupported (exit 2 in the driver).  The emitted C is the *code that runs*
re-spelled: every implicit conversion clang inserted is emitted as an explicit C cast.
"""
import json, os, re, subprocess, sys, collections

class Unsupported(Exception):
    pass

# ----------------------------------------------------------------------------- AST load
def run_clang(tu_text, incs, workdir, name, filt='ccl::', extra=()):
    src = os.path.join(workdir, name + '_tu.cpp')
    with open(src, 'w') as f:
        f.write(tu_text)
    cmd = ['clang++', '-std=c++20', '-fsyntax-only', '-w'] + ['-I' + i for i in incs] + list(extra) + \
          ['-Xclang', '-ast-dump=json', '-Xclang', '-ast-dump-filter=' + filt, src]
    p = subprocess.run(cmd, capture_output=True, text=True)
    if p.returncode != 0:
        raise Unsupported('clang failed on %s: %s' % (name, p.stderr[-2000:]))
    return load_stream(p.stdout)

def load_stream(s):
    dec = json.JSONDecoder(); i = 0; objs = []; n = len(s)
    while i < n:
        while i < n and s[i] != '{':
            # skip "Dumping xxx:" lines / whitespace
            j = s.find('\n', i)
            if s[i].isspace(): i += 1
            elif j < 0: i = n
            else: i = j + 1
        if i >= n: break
        o, j = dec.raw_decode(s, i); objs.append(o); i = j
    return objs

# ----------------------------------------------------------------------------- types
class Ty:
    def __init__(self, kind, c, elem=None, key=None, ref=False, const=False, rec=None):
        self.kind = kind; self.c = c; self.elem = elem; self.key = key
        self.ref = ref; self.const = const; self.rec = rec
    def __repr__(self): return 'Ty(%s,%s%s)' % (self.kind, self.c, '&' if self.ref else '')

BUILTIN = {
    'void': 'void', 'bool': 'cc_bool', 'char': 'char', 'signed char': 'signed char',
    'unsigned char': 'unsigned char', 'short': 'short', 'unsigned short': 'unsigned short',
    'int': 'int', 'unsigned int': 'unsigned int', 'long': 'long', 'unsigned long': 'unsigned long',
    'long long': 'long long', 'unsigned long long': 'unsigned long long', 'unsigned': 'unsigned int',
    'int8_t': 'signed char', 'uint8_t': 'unsigned char', 'int16_t': 'short', 'uint16_t': 'unsigned short',
    'int32_t': 'int', 'uint32_t': 'unsigned int', 'int64_t': 'long', 'uint64_t': 'unsigned long',
    'size_t': 'unsigned long', 'std::size_t': 'unsigned long', 'ptrdiff_t': 'long', 'std::ptrdiff_t': 'long',
    'char8_t': 'unsigned char', 'double': 'double', 'float': 'float',
}

LIBTYPES = [
    (r'std::basic_string_view<char[^>]*>::value_type', 'char'),
    (r'std::basic_string_view<char[^>]*>::size_type', 'unsigned long'),
    (r'std::basic_string_view::size_type', 'unsigned long'),
    (r'std::basic_string_view<char[^>]*>::const_pointer', 'const char *'),
    (r'std::basic_string_view<char[^>]*>::const_iterator', 'const char *'),
    (r'std::(vector|basic_string|list|unordered_set|unordered_map|set|map)<.*>::size_type', 'unsigned long'),
    (r'(std::)?size_type', 'unsigned long'),
]

def split_targs(s):
    """split 'A<B,C>, D' at top-level commas"""
    out = []; depth = 0; cur = ''
    for ch in s:
        if ch in '<(': depth += 1
        elif ch in '>)': depth -= 1
        if ch == ',' and depth == 0:
            out.append(cur.strip()); cur = ''
        else: cur += ch
    if cur.strip(): out.append(cur.strip())
    return out

def strip_cv(s):
    s = s.strip()
    changed = True; const = False
    while changed:
        changed = False
        for kw in ('const ', 'volatile ', 'struct ', 'class ', 'enum ', 'typename '):
            if s.startswith(kw): s = s[len(kw):].strip(); changed = True; const = const or kw == 'const '
        for kw in (' const', ' volatile'):
            if s.endswith(kw): s = s[:-len(kw)].strip(); changed = True; const = const or kw == ' const'
    return s, const

def cident(s):
    return re.sub(r'[^A-Za-z0-9_]+', '_', s).strip('_')

# ----------------------------------------------------------------------------- emitter
OPNAMES = {'==': 'op_eq', '!=': 'op_ne', '++': 'op_inc', '--': 'op_dec', '*': 'op_deref', '<': 'op_lt',
           '>': 'op_gt', '<=': 'op_le', '>=': 'op_ge', '+': 'op_add', '-': 'op_sub', '+=': 'op_addassign',
           '-=': 'op_subassign', '[]': 'op_index', '()': 'op_call', '->': 'op_arrow', '=': 'op_assign',
           '!': 'op_not', '<=>': 'op_cmp3', '&': 'op_and', '|': 'op_or', '<<': 'op_shl'}

TRANSPARENT_EXPR = {'ExprWithCleanups', 'MaterializeTemporaryExpr', 'ConstantExpr', 'CXXBindTemporaryExpr',
                    'ParenExpr', 'CXXFunctionalCastExpr_noop', 'SubstNonTypeTemplateParmExpr'}

class Emitter:
    def __init__(self, unit, objs):
        self.u = unit
        self.objs = objs
        self.byid = {}
        self.parent = {}
        self.records = {}     # qualified name -> decl
        self.enums = {}       # qualified name -> decl
        self.typedefs = {}    # name -> underlying qualType string
        self.qname = {}       # decl id -> qualified name
        self.rules = collections.Counter()
        self.dropped = collections.Counter()
        self.autostubs = {}   # cname -> prototype text
        self.containers = collections.OrderedDict()  # cname -> macro line
        self.wanted = []      # decl ids queued for emission
        self.emitted = {}     # decl id -> cname
        self.cnames = {}      # decl id -> cname (assigned)
        self.bodies = collections.OrderedDict()
        self.protos = collections.OrderedDict()
        self.statics = collections.OrderedDict()
        self.lambdas = {}
        self.tmpn = 0
        self.fninfo = {}      # cname -> {'file','line','qname'}
        self.opaque = {}      # C++ type pattern -> c name
        self.index()

    # ---------------------------------------------------------------- indexing
    def index(self):
        def rec(n, par, scope):
            if not isinstance(n, dict): return
            if 'id' in n and 'kind' in n:
                # a node may appear twice (lambda body); keep first
                self.byid.setdefault(n['id'], n)
                if par is not None: self.parent.setdefault(n['id'], par)
            k = n.get('kind', '')
            sc = scope
            if k in ('NamespaceDecl',):
                sc = scope + [n.get('name', '(anon)')]
            elif k in ('CXXRecordDecl', 'ClassTemplateSpecializationDecl') and n.get('name'):
                nm = n['name']
                if k == 'ClassTemplateSpecializationDecl':
                    targs = [c.get('type', {}).get('qualType') for c in n.get('inner', []) if c.get('kind') == 'TemplateArgument']
                    if targs and all(targs): nm = '%s<%s>' % (nm, ', '.join(targs))
                qn = '::'.join(scope + [nm])
                if n.get('completeDefinition') or any(c.get('kind') in ('FieldDecl', 'CXXMethodDecl') for c in n.get('inner', [])):
                    self.records.setdefault(qn, n)
                self.qname[n['id']] = qn
                sc = scope + [n['name']]
            elif k == 'EnumDecl' and n.get('name'):
                qn = '::'.join(scope + [n['name']]); self.enums[qn] = n; self.qname[n['id']] = qn
                sc = scope + [n['name']]
            elif k in ('TypeAliasDecl', 'TypedefDecl') and n.get('name'):
                t = n.get('type', {})
                self.typedefs['::'.join(scope + [n['name']])] = t.get('desugaredQualType', t.get('qualType'))
            elif k in ('FunctionDecl', 'CXXMethodDecl', 'CXXConstructorDecl', 'CXXConversionDecl', 'CXXDestructorDecl'):
                self.qname[n['id']] = '::'.join(scope + [n.get('name', '?')])
            elif k in ('VarDecl', 'FieldDecl', 'EnumConstantDecl'):
                self.qname[n['id']] = '::'.join(scope + [n.get('name', '?')])
            for c in n.get('inner', []):
                rec(c, n, sc)
        self._index_done = False
        for o in self.objs:
            # top-level dumps are ccl::-filtered: their scope is 'ccl' plus whatever lexical parent;
            # clang's filter prints the decl alone, so recover the scope from mangledName-free info:
            rec(o, None, self.scope_of_top(o))
        self.fix_out_of_line_names()

    def fix_out_of_line_names(self):
        """out-of-class member definitions: qualify by the semantic parent (the class), not the namespace"""
        for i, d in self.byid.items():
            if d.get('kind') in ('CXXMethodDecl', 'CXXConstructorDecl', 'CXXConversionDecl', 'CXXDestructorDecl', 'VarDecl') and d.get('parentDeclContextId') in self.qname:
                par = self.byid.get(d['parentDeclContextId'])
                if par is not None and par.get('kind') in ('CXXRecordDecl', 'ClassTemplateSpecializationDecl'):
                    self.qname[i] = self.qname[d['parentDeclContextId']] + '::' + d.get('name', '?')

    def scope_of_top(self, o):
        # qualified scope of a filtered top-level decl is not in the JSON; units give a map when
        # it matters (nested namespaces).  Default: the unit's 'namespace' (e.g. ccl or ccl::rslang).
        nm = o.get('name')
        m = self.u.get('scopes', {})
        if nm in m: return m[nm].split('::')
        pid = o.get('parentDeclContextId')
        if pid and pid in self.byid and self.byid[pid]['id'] in self.qname:
            return self.qname[pid].split('::')
        return self.u.get('top_scope', 'ccl').split('::')

    # ---------------------------------------------------------------- naming
    def owner_record(self, decl):
        p = self.parent.get(decl['id'])
        if decl.get('parentDeclContextId') in self.byid:
            p = self.byid[decl['parentDeclContextId']]
        while p is not None and p.get('kind') not in ('CXXRecordDecl', 'ClassTemplateSpecializationDecl'):
            if p.get('kind') in ('NamespaceDecl', 'TranslationUnitDecl'): return None
            p = self.parent.get(p['id'])
        return p

    def rec_cname(self, recdecl):
        qn = self.qname.get(recdecl['id'], recdecl.get('name'))
        short = qn
        for pre in self.u.get('strip_ns', ['ccl::rslang::', 'ccl::semantic::', 'ccl::graph::', 'ccl::lang::', 'ccl::ops::', 'ccl::src::', 'ccl::change::', 'ccl::object::', 'ccl::types::', 'ccl::meta::', 'ccl::']):
            if short.startswith(pre): short = short[len(pre):]; break
        return cident(short.replace('(anon)::', ''))

    def is_const_method(self, d):
        t = d.get('type', {}).get('qualType', '')
        return bool(re.search(r'\)\s*const\b', t))

    def fn_cname(self, d):
        if d['id'] in self.cnames: return self.cnames[d['id']]
        first = d
        while 'previousDecl' in first and first['previousDecl'] in self.byid: first = self.byid[first['previousDecl']]
        if first is not d:
            cn = self.fn_cname(first); self.cnames[d['id']] = cn; return cn
        k = d['kind']
        owner = self.owner_record(d) if k != 'FunctionDecl' else None
        name = d.get('name', '')
        if k == 'CXXConstructorDecl':
            base = 'ctor'
        elif k == 'CXXConversionDecl':
            base = 'conv_' + cident(name.replace('operator', ''))
        elif name.startswith('operator'):
            op = name[len('operator'):].strip()
            base = OPNAMES.get(op)
            if base is None: raise Unsupported('operator name ' + name)
        else:
            base = cident(name)
        if owner is not None and owner.get('name'):
            pre = self.rec_cname(owner) + '_'
            sibs = [c for c in owner.get('inner', []) if c.get('kind') == k and c.get('name') == name and not c.get('isImplicit')]
        elif owner is not None:   # lambda
            pre = ''; sibs = [d]
            base = 'lambda_%s' % self.loc_tag(d)
        else:
            pre = ''
            # free function overloads: siblings = same-name FunctionDecls at top level dumps
            sibs = [o for o in self.all_free_functions() if o.get('name') == name]
        cn = pre + base
        if len(sibs) > 1:
            ids = [s['id'] for s in sibs]
            # definitions and declarations of the same function share type; dedupe by type string
            seen = [];
            for s in sibs:
                t = s.get('type', {}).get('qualType')
                if t not in seen: seen.append(t)
            if len(seen) > 1:
                t0 = d.get('type', {}).get('qualType')
                cn += '_%d' % (seen.index(t0) if t0 in seen else len(seen))
        ov = self.u.get('rename', {})
        cn = ov.get(cn, cn)
        self.cnames[d['id']] = cn
        return cn

    def all_free_functions(self):
        if not hasattr(self, '_ff'):
            out = []
            def rec(n):
                if isinstance(n, dict):
                    if n.get('kind') == 'FunctionDecl': out.append(n)
                    elif n.get('kind') in ('NamespaceDecl', 'LinkageSpecDecl'):
                        for c in n.get('inner', []): rec(c)
            for o in self.objs: rec(o)
            self._ff = out
        return self._ff

    def loc_tag(self, n):
        # clang's JSON omits 'line' when it equals the previously printed one: use the
        # lambda type spelling "(lambda at file:LINE:COL)" of the owning record when present
        own = self.parent.get(n.get('id'))
        for cand in (n, own, self.parent.get(own['id']) if own else None):
            if cand is None: continue
            m = re.search(r'lambda at [^:]+:(\d+):(\d+)', json.dumps(cand.get('type', {})))
            if m: return '%s_%s' % (m.group(1), m.group(2))
        r = n.get('range', {}).get('begin', {})
        l = n.get('loc', {})
        line = l.get('line') or r.get('line') or r.get('spellingLoc', {}).get('line') or 0
        col = l.get('col') or r.get('col') or 0
        return '%s_%s' % (line, col)

    def tmp(self, p='t'):
        self.tmpn += 1
        return '%s_%d_' % (p, self.tmpn)

    # ---------------------------------------------------------------- types
    def tyq(self, t):
        """Ty from a clang type dict"""
        if t is None: raise Unsupported('no type')
        q = t.get('desugaredQualType') or t.get('qualType')
        try:
            return self.ty(q)
        except Unsupported:
            if t.get('desugaredQualType') and t.get('qualType') != q:
                return self.ty(t['qualType'])
            raise

    def ty(self, q):
        try:
            return self._ty(q)
        except Unsupported:
            if not self.u.get('default_opaque'): raise
            q1 = q.strip(); ref = False
            if q1.endswith('&&'): q1 = q1[:-2].strip(); ref = 'rv'
            elif q1.endswith('&'): q1 = q1[:-1].strip(); ref = True
            q1, const = strip_cv(q1)
            if q1.endswith('*'): raise
            base = re.sub(r'<.*', '', q1).split('::')[-1]
            import hashlib
            cn = 'opq_' + cident(base)[:32] + '_' + hashlib.md5(q1.encode()).hexdigest()[:5]
            self.opaque[cn] = q1
            self.rules['default-opaque-type'] += 1
            return Ty('opaque', cn, ref=ref, const=const)

    def _ty(self, q):
        q0 = q
        q = q.strip().replace('(anonymous namespace)', '(anon)')
        ref = False
        if q.endswith('&&'): q = q[:-2].strip(); ref = 'rv'
        elif q.endswith('&'): q = q[:-1].strip(); ref = True
        q, const = strip_cv(q)
        # user overrides first
        for pat, c in self.u.get('typemap', {}).items():
            if re.fullmatch(pat, q):
                if isinstance(c, dict):
                    t = Ty(c['kind'], c['c'], elem=self.ty(c['elem']) if c.get('elem') else None,
                           key=self.ty(c['key']) if c.get('key') else None)
                else:
                    t = Ty('opaque' if c.startswith('opq_') else 'scalar', c)
                t.ref = ref; t.const = const; return t
        for pat, c in self.u.get('opaque', {}).items():
            if re.fullmatch(pat, q):
                self.opaque[c] = q
                return Ty('opaque', c, ref=ref, const=const)
        for pat, rep in LIBTYPES:
            if re.fullmatch(pat, q):
                t = self.ty(rep); t.ref = ref or t.ref; t.const = const or t.const; return t
        if q.endswith('*'):
            inner = self.ty(q[:-1])
            return Ty('ptr', inner.c + '*' if not inner.const else 'const ' + inner.c + '*', elem=inner, ref=ref, const=const)
        if q in BUILTIN:
            return Ty('void' if q == 'void' else 'scalar', BUILTIN[q], ref=ref, const=const)
        if q in self.typedefs:
            t = self.ty(self.typedefs[q]); t.ref = ref or t.ref; t.const = const or t.const; return t
        for ns in ('ccl::', 'ccl::object::', 'ccl::rslang::', 'ccl::semantic::', 'ccl::graph::', 'ccl::lang::', 'ccl::ops::', 'ccl::src::', 'ccl::change::'):
            if ns + q in self.typedefs:
                t = self.ty(self.typedefs[ns + q]); t.ref = ref or t.ref; t.const = const or t.const; return t
        if re.fullmatch(r'[A-Za-z_]\w*', q):
            # unqualified alias declared in some namespace of the repository: unique suffix match
            tg = {v for k, v in self.typedefs.items() if k.endswith('::' + q)}
            if len(tg) == 1:
                t = self.ty(tg.pop()); t.ref = ref or t.ref; t.const = const or t.const; return t
        m = re.fullmatch(r'(?:std::)?(?:basic_string_view<char(?:, std::char_traits<char>)?>|string_view)', q)
        if m: return Ty('sv', 'sv_t', ref=ref, const=const)
        m = re.fullmatch(r'std::optional<(.*)>', q)
        if m:
            e = self.ty(m.group(1)); cn = 'opt_' + cident(e.c)
            self.containers.setdefault(cn, 'CC_DEFINE_OPT(%s,%s)' % (cn, e.c))
            return Ty('opt', cn, elem=e, ref=ref, const=const)
        m = re.fullmatch(r'std::array<(.*)>', q)
        if m:
            a, nn = split_targs(m.group(1)); ta = self.ty(a)
            cn = 'arr_%s_%s' % (cident(ta.c), cident(nn))
            self.containers.setdefault(cn, 'typedef struct { %s data[%s]; } %s;\n' % (ta.c, re.sub(r'[A-Za-z]+$', '', nn), cn))
            t = Ty('arr', cn, elem=ta, ref=ref, const=const); t.n = re.sub(r'[A-Za-z]+$', '', nn); return t
        m = re.fullmatch(r'std::pair<(.*)>', q)
        if m:
            a, b = split_targs(m.group(1)); ta = self.ty(a); tb = self.ty(b)
            cn = 'pair_%s_%s' % (cident(ta.c), cident(tb.c))
            self.containers.setdefault(cn, 'CC_DEFINE_PAIR(%s,%s,%s)' % (cn, ta.c, tb.c))
            return Ty('pair', cn, elem=tb, key=ta, ref=ref, const=const)
        if re.fullmatch(r'std::_Bit_reference|std::vector<bool(, std::allocator<bool>)?>::reference', q):
            return Ty('bitref', 'cc_bool', ref=ref, const=const)
        m = re.fullmatch(r'std::stack<(.*)>', q)
        if m:
            # std::stack<T> (over deque) is modelled as the vector of its elements: push/emplace -> push_back, top -> back, pop -> pop_back
            targs = split_targs(m.group(1)); t = self.ty('std::vector<%s>' % targs[0].strip()); t.ref = ref or t.ref; t.const = const or t.const
            self.rules['std::stack-as-vector'] += 1; return t
        m = re.fullmatch(r'std::vector<(.*)>', q)
        if m:
            args = split_targs(m.group(1)); e = self.ty(args[0])
            cn = 'vec_' + cident(e.c)
            cap = self.u.get('caps', {}).get(cn, self.u.get('caps', {}).get('default', 'CC_CAP'))
            mac = 'CC_DEFINE_VEC(%s,%s,%s)' % (cn, e.c, cap)
            if e.kind == 'scalar': mac += '\nCC_DEFINE_VEC_SCALAR(%s,%s,%s)' % (cn, e.c, cap)
            self.containers.setdefault(cn, mac)
            return Ty('vec', cn, elem=e, ref=ref, const=const)
        m = re.fullmatch(r'std::(?:__cxx11::)?list<(.*)>', q)
        if m:
            args = split_targs(m.group(1)); e = self._ty(args[0])
            if e.kind != 'scalar': raise Unsupported('std::list of non-scalar ' + q)
            cn = 'list_' + cident(e.c)
            cap = self.u.get('caps', {}).get(cn, self.u.get('caps', {}).get('default', 'CC_CAP'))
            self.containers.setdefault(cn, 'CC_DEFINE_VEC(%s,%s,%s)\nCC_DEFINE_VEC_SCALAR(%s,%s,%s)' % (cn, e.c, cap, cn, e.c, cap))
            t = Ty('vec', cn, elem=e, ref=ref, const=const); t.is_list = True; return t
        m = re.fullmatch(r'std::_List_(const_)?iterator<(.*)>', q)
        if m:
            e = self._ty(m.group(2)); cn = 'list_' + cident(e.c)
            cap = self.u.get('caps', {}).get(cn, self.u.get('caps', {}).get('default', 'CC_CAP'))
            self.containers.setdefault(cn, 'CC_DEFINE_VEC(%s,%s,%s)\nCC_DEFINE_VEC_SCALAR(%s,%s,%s)' % (cn, e.c, cap, cn, e.c, cap))
            return Ty('iter', 'size_t', elem=Ty('vec', cn, elem=e), ref=ref, const=const)
        m = re.fullmatch(r'std::unordered_set<(.*)>', q)
        if m:
            args = split_targs(m.group(1)); e = self.ty(args[0])
            if e.kind != 'scalar': raise Unsupported('unordered_set of non-scalar ' + q)
            cn = 'uset_' + cident(e.c)
            cap = self.u.get('caps', {}).get(cn, self.u.get('caps', {}).get('default', 'CC_CAP'))
            self.containers.setdefault(cn, 'CC_DEFINE_USET(%s,%s,%s)' % (cn, e.c, cap))
            return Ty('uset', cn, elem=e, ref=ref, const=const)
        m = re.fullmatch(r'std::set<std::pair<(.*)>>|std::set<std::pair<(.*)>, .*>', q)
        if m:
            a, b = split_targs(m.group(1) or m.group(2))[:2]; ta = self.ty(a); tb = self.ty(b)
            if ta.kind != 'scalar' or tb.kind != 'scalar': raise Unsupported('set<pair> of non-scalars ' + q)
            cn = 'pset_%s_%s' % (cident(ta.c), cident(tb.c))
            cap = self.u.get('caps', {}).get(cn, self.u.get('caps', {}).get('default', 'CC_CAP'))
            self.containers.setdefault(cn, 'CC_DEFINE_PSET(%s,%s,%s,%s)' % (cn, ta.c, tb.c, cap))
            return Ty('pset', cn, elem=tb, key=ta, ref=ref, const=const)
        m = re.fullmatch(r'std::unordered_map<(.*)>', q)
        if m:
            args = split_targs(m.group(1)); k = self.ty(args[0]); v = self.ty(args[1])
            if k.kind != 'scalar' or v.kind != 'scalar': raise Unsupported('unordered_map of non-scalar ' + q)
            cn = 'umap_%s_%s' % (cident(k.c), cident(v.c))
            cap = self.u.get('caps', {}).get(cn, self.u.get('caps', {}).get('default', 'CC_CAP'))
            self.containers.setdefault(cn, 'CC_DEFINE_UMAP(%s,%s,%s,%s)' % (cn, k.c, v.c, cap))
            return Ty('umap', cn, elem=v, key=k, ref=ref, const=const)
        m = re.fullmatch(r'std::__detail::_Node_(const_)?iterator<(.*)>|std::__detail::_Node_iterator_base<(.*)>', q)
        if m:
            return Ty('iter', 'size_t', elem=None, ref=ref, const=const)
        m = re.fullmatch(r'std::reverse_iterator<(?:__gnu_cxx::)?__normal_iterator<(.*)>>', q)
        if m:
            args = split_targs(m.group(1)); cont = self.ty(args[1])
            return Ty('riter', 'size_t', elem=cont, ref=ref, const=const)
        m = re.fullmatch(r'(__gnu_cxx::)?__normal_iterator<(.*)>', q)
        if m:
            args = split_targs(m.group(2)); cont = self.ty(args[1])
            return Ty('iter', 'size_t', elem=cont, ref=ref, const=const)
        if re.fullmatch(r'std::_Bit_(const_)?iterator', q):
            return Ty('iter', 'size_t', elem=None, ref=ref, const=const)
        # records of this unit
        r = self.find_record(q)
        if r is not None:
            mode = self.record_mode(r)
            cn = self.rec_cname(r)
            if mode == 'transparent':
                return Ty('rec', cn, ref=ref, const=const, rec=r)
            return Ty('opaque', 'opq_' + cn, ref=ref, const=const, rec=r)
        e = self.find_enum(q)
        if e is not None:
            return Ty('scalar', self.enum_ctype(e), ref=ref, const=const)
        for pat, c in self.u.get('opaque', {}).items():
            if re.fullmatch(pat, q):
                self.opaque[c] = q
                return Ty('opaque', c, ref=ref, const=const)
        if self.u.get('default_opaque'):
            # DESIGN §4.2: every other class type met in a signature or a local is an opaque token
            base = re.sub(r'<.*', '', q).split('::')[-1]
            cn = 'opq_' + cident(base)[:40]
            if cn in self.opaque and self.opaque[cn] != q:
                import hashlib
                cn = cn + '_' + hashlib.md5(q.encode()).hexdigest()[:6]
            self.opaque[cn] = q
            self.rules['default-opaque-type'] += 1
            return Ty('opaque', cn, ref=ref, const=const)
        raise Unsupported('type %r (from %r)' % (q, q0))

    def find_record(self, q):
        q = re.sub(r'^(struct|class) ', '', q)
        if q in self.records: return self.records[q]
        cands = [k for k in self.records if k.endswith('::' + q)]
        if len(cands) == 1: return self.records[cands[0]]
        if len(cands) > 1:
            cands.sort(key=len); return self.records[cands[0]]
        # a nested class defined out of line (class Outer::Inner { ... } at namespace scope) is indexed without its outer
        # class: unique match on the last component
        last = q.split('::')[-1]
        if re.fullmatch(r'[A-Za-z_]\w*', last):
            cands = [k for k in self.records if k.split('::')[-1] == last]
            if len(cands) == 1: return self.records[cands[0]]
        return None

    def find_enum(self, q):
        if q in self.enums: return self.enums[q]
        cands = [k for k in self.enums if k.endswith('::' + q)]
        if cands:
            cands.sort(key=len); return self.enums[cands[0]]
        return None

    def enum_ctype(self, e):
        ft = e.get('fixedUnderlyingType', {}).get('desugaredQualType') or e.get('fixedUnderlyingType', {}).get('qualType') or 'int'
        return self.ty(ft).c

    def record_mode(self, r):
        qn = self.qname.get(r['id'], r.get('name'))
        modes = self.u.get('records', {})
        for k, v in modes.items():
            if qn == k or qn.endswith('::' + k): return v
        return self.u.get('default_record_mode', 'opaque')

    def this_by_pointer(self, r):
        qn = self.qname.get(r['id'], r.get('name'))
        for k in self.u.get('this_by_pointer', []):
            if qn == k or qn.endswith('::' + k): return True
        return False
