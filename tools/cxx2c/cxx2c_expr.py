"""Expression rules of cxx2c (mixin)."""
import re
from cxx2c import Unsupported, Ty, cident, OPNAMES

PURE_KINDS = {'DeclRefExpr', 'MemberExpr', 'IntegerLiteral', 'ImplicitCastExpr', 'ParenExpr', 'CXXThisExpr',
              'CharacterLiteral', 'CXXBoolLiteralExpr', 'BinaryOperator', 'UnaryOperator', 'CXXStaticCastExpr',
              'MaterializeTemporaryExpr', 'ExprWithCleanups', 'ConstantExpr', 'ArraySubscriptExpr',
              'CXXMemberCallExpr', 'CXXOperatorCallExpr', 'CallExpr', 'CXXConstructExpr', 'CXXFunctionalCastExpr',
              'CStyleCastExpr', 'CXXBindTemporaryExpr', 'CXXDefaultArgExpr', 'CXXTemporaryObjectExpr',
              'ConditionalOperator', 'StringLiteral', 'CXXNullPtrLiteralExpr', 'InitListExpr'}

class ExprMixin:
    # ------------------------------------------------------------ helpers
    def kids(self, n):
        return [c for c in n.get('inner', []) if c.get('kind') not in (None,) ]

    def skip(self, n):
        """strip transparent wrappers"""
        while n.get('kind') in ('ExprWithCleanups', 'MaterializeTemporaryExpr', 'ConstantExpr', 'CXXBindTemporaryExpr',
                                'ParenExpr', 'SubstNonTypeTemplateParmExpr') or \
              (n.get('kind') == 'ImplicitCastExpr' and n.get('castKind') in ('NoOp', 'LValueToRValue', 'FunctionToPointerDecay',
                                                                             'ConstructorConversion', 'UserDefinedConversion', 'DerivedToBase', 'UncheckedDerivedToBase')):
            n = n['inner'][0]
        return n

    def has_side_effects(self, n):
        k = n.get('kind')
        if k in ('UnaryOperator',) and n.get('opcode') in ('++', '--'): return True
        if k in ('CompoundAssignOperator',): return True
        if k == 'BinaryOperator' and n.get('opcode') in ('=',): return True
        if k == 'CXXOperatorCallExpr':
            cal = self.skip(n['inner'][0])
            nm = cal.get('referencedDecl', {}).get('name', '')
            if nm in ('operator++', 'operator--', 'operator=', 'operator+=', 'operator-='): return True
        for c in n.get('inner', []):
            if isinstance(c, dict) and self.has_side_effects(c): return True
        return False

    def lit_suffix(self, t):
        c = self.tyq(t).c
        return {'unsigned int': 'U', 'long': 'L', 'unsigned long': 'UL', 'long long': 'LL', 'unsigned long long': 'ULL'}.get(c, '')

    def callee_decl(self, n):
        """(declnode or None, referencedDecl dict) for a CallExpr-like node"""
        c = self.skip(n['inner'][0])
        if c.get('kind') == 'DeclRefExpr':
            r = c['referencedDecl']
            return self.byid.get(r['id']), r
        if c.get('kind') == 'MemberExpr':
            rid = c.get('referencedMemberDecl')
            return self.byid.get(rid), {'name': c.get('name'), 'id': rid, 'kind': 'CXXMethodDecl'}
        if c.get('kind') == 'UnresolvedLookupExpr':
            raise Unsupported('unresolved call %s' % c.get('name'))
        raise Unsupported('callee kind %s' % c.get('kind'))

    def params_of(self, d):
        return [c for c in d.get('inner', []) if c.get('kind') == 'ParmVarDecl']

    def param_storage(self, p):
        """how a parameter is stored in C: 'val' or 'ptr'"""
        t = self.tyq(p['type'])
        if t.ref is True and not t.const: return 'ptr'
        if t.ref and t.const and self.big(t): return 'ptr'
        if t.ref == 'rv' and self.big(t): return 'ptr'
        return 'val'

    def big(self, t):
        if t.kind in ('vec', 'uset', 'umap', 'list', 'str', 'set', 'map'): return True
        if t.kind == 'rec' and t.rec is not None and self.this_by_pointer(t.rec): return True
        if t.kind == 'opaque': return True
        return False

    def addr(self, s):
        s = s.strip()
        m = re.fullmatch(r'\(\*([A-Za-z_][A-Za-z0-9_]*)\)', s)
        if m: return m.group(1)
        m = re.fullmatch(r'\(\*\((.*)\)\)', s)
        if m and self.balanced(m.group(1)): return '(' + m.group(1) + ')'
        return '&(' + s + ')'

    def deref(self, s):
        s = s.strip()
        m = re.fullmatch(r'&\((.*)\)', s)
        if m and self.balanced(m.group(1)): return '(' + m.group(1) + ')'
        m = re.fullmatch(r'\(&([A-Za-z_]\w*)\)', s)
        if m: return m.group(1)
        return '(*' + s + ')'

    def balanced(self, s):
        d = 0
        for ch in s:
            if ch == '(': d += 1
            elif ch == ')':
                d -= 1
                if d < 0: return False
        return d == 0

    def is_lv(self, core):
        """does the (wrapper-stripped) expression denote an object whose address can be taken in C"""
        k = core.get('kind')
        if k in ('DeclRefExpr', 'CXXThisExpr'): return True
        if k == 'MemberExpr':
            if core.get('isArrow'): return True
            return self.is_lv(self.skip(core['inner'][0]))
        if k == 'UnaryOperator' and core.get('opcode') == '*': return True
        if k in ('CallExpr', 'CXXMemberCallExpr', 'CXXOperatorCallExpr'):
            # an lvalue in C only if the callee is translated as returning a pointer, or it is an
            # element access on an addressable library container
            if core.get('valueCategory') != 'lvalue': return False
            try: d, r = self.callee_decl(core)
            except Unsupported: return False
            if d is not None and d.get('kind') in ('FunctionDecl', 'CXXMethodDecl', 'CXXConversionDecl'):
                rt = self.ret_type(d)
                return bool(rt.ref and (not rt.const or self.big(rt)))
            nm = r.get('name', '')
            if nm in ('operator[]', 'at', 'back', 'front', 'operator*', 'operator->', 'value'):
                if k == 'CXXMemberCallExpr':
                    me = self.skip(core['inner'][0]); return me.get('isArrow') or self.is_lv(self.skip(me['inner'][0]))
                if len(core['inner']) > 1: return self.is_lv(self.skip(core['inner'][1]))
            return False
        return core.get('valueCategory') == 'lvalue'

    def is_lvalue(self, n):
        return n.get('valueCategory') == 'lvalue'

    def as_arg(self, arg, storage, pty=None):
        """emit an argument for a parameter with the given storage"""
        if storage == 'val':
            if pty is not None and pty.kind == 'opaque' and self.skip(arg).get('kind') == 'CXXNullPtrLiteralExpr':
                return '(%s){0}' % pty.c            # nullptr passed as std::nullptr_t (an opaque value type in the C text)
            return self.expr(arg)
        a = self.skip(arg) if self.skip(arg).get('valueCategory') in ('lvalue', 'xvalue') else arg
        core = self.skip(arg)
        if self.is_lv(core):
            mine = self.wb
            lv = self.expr(core)
            self.wb = mine              # calls nested in the argument expression have their own write-back lists
            if '.data[' in lv and self.wb is not None:
                # pointer to an element nested in a container: pass a copy, write it back after the call
                # (CBMC 6.11 pitfall, DESIGN §2 item 8); same semantics unless the callee keeps the pointer
                t = self.tyq(core['type']); tn = self.tmp('ref')
                self.wb.append((t.c, tn, lv, bool(pty is not None and pty.const))); self.rules['nested-element-ref-arg-by-copy'] += 1
                return '&' + tn
            return self.addr(lv)
        # rvalue bound to a reference: materialise a temporary
        t = self.tyq(arg['type'])
        tn = self.tmp('tmp')
        self.pre.append('%s %s = %s;' % (t.c, tn, self.expr(arg)))
        self.rules['temporary-for-reference-arg'] += 1
        return '&' + tn

    def obj_type(self, node):
        """type of the object expression itself (implicit derived-to-base casts of the object argument stripped)"""
        try: return self.tyq(self.skip(node)['type'])
        except Unsupported: return self.tyq(node['type'])

    def etype(self, node):
        """C-side type of an expression; honours per-variable container overrides (unit 'local_caps')"""
        c = self.skip(node)
        if c.get('kind') == 'DeclRefExpr':
            o = self.var_ty.get(c['referencedDecl']['id'])
            if o is not None: return o
        return self.tyq(node['type'])

    # ------------------------------------------------------------ main dispatch
    def expr(self, n, rvalue=False):
        k = n.get('kind')
        if k is None:
            raise Unsupported('empty expression node')
        self.rules['expr:' + k] += 1
        m = getattr(self, 'e_' + k, None)
        if m is None:
            raise Unsupported('expression kind %s at %s' % (k, self.where(n)))
        if k in ('CXXOperatorCallExpr', 'CXXMemberCallExpr', 'CallExpr', 'ImplicitCastExpr'):
            return m(n, rvalue)
        return m(n)

    def where(self, n):
        r = n.get('range', {}).get('begin', {})
        ln = r.get('line') or r.get('spellingLoc', {}).get('line') or r.get('expansionLoc', {}).get('line')
        return '%s:%s' % (self.cur_fn or '?', ln)

    # ------------------------------------------------------------ literals & refs
    def e_IntegerLiteral(self, n):
        return n['value'] + self.lit_suffix(n['type'])
    def e_CharacterLiteral(self, n):
        return '((%s)%d)' % (self.tyq(n['type']).c, n['value'])
    def e_CXXBoolLiteralExpr(self, n):
        return '((cc_bool)%d)' % (1 if n['value'] else 0)
    def e_CXXNullPtrLiteralExpr(self, n):
        return '0'
    def e_CXXThrowExpr(self, n):
        # `throw T{...}`: an exception leaves the function.  Emitted as an obligation ("not thrown") followed by a cut of the
        # path: the contracts of this tool state exception-freedom, and what follows a throw is not executed
        what = 'exception'
        try:
            inner = [c for c in n.get('inner', [])]
            if inner: what = re.sub(r'\s+', ' ', str(inner[0].get('type', {}).get('qualType', 'exception')))[:60]
        except Exception: pass
        self.rules['throw-as-obligation'] += 1
        return '({ __CPROVER_assert(0, "throw %s: no exception is thrown"); __CPROVER_assume(0); (void)0; })' % what.replace('"', "'")
    def e_StringLiteral(self, n):
        return n['value']
    def e_FloatingLiteral(self, n):
        return n['value']
    def e_ParenExpr(self, n): return '(' + self.expr(n['inner'][0]) + ')'
    def e_ExprWithCleanups(self, n): return self.expr(n['inner'][0])
    def e_MaterializeTemporaryExpr(self, n): return self.expr(n['inner'][0])
    def e_ConstantExpr(self, n): return self.expr(n['inner'][0])
    def e_CXXBindTemporaryExpr(self, n): return self.expr(n['inner'][0])
    def e_SubstNonTypeTemplateParmExpr(self, n): return self.expr(n['inner'][-1])

    def e_CXXRewrittenBinaryOperator(self, n):
        self.rules['rewritten-operator(!=)'] += 1
        return self.expr(n['inner'][0])

    def e_CXXThisExpr(self, n):
        return 'this_' if self.this_mode == 'ptr' else '(&this_v)'

    def e_DeclRefExpr(self, n):
        r = n['referencedDecl']; rk = r['kind']; rid = r['id']
        if rk in ('ParmVarDecl', 'VarDecl', 'BindingDecl'):
            if rid in self.vars:
                mode, text = self.vars[rid]
                if mode == 'val': return text
                if mode == 'ptr': return '(*%s)' % text
                if mode == 'alias': return text
                if mode == 'mapelem': raise Unsupported('map element used as a whole pair at ' + self.where(n))
            d = self.byid.get(rid)
            if d is not None and (d.get('storageClass') == 'static' or d.get('constexpr')) and d['id'] not in self.vars:
                return self.static_var(d)
            if d is not None and self.parent.get(rid, {}).get('kind') in ('NamespaceDecl', None) :
                return self.static_var(d)
            if r.get('name') == 'npos' and 'unsigned long' in str(r.get('type', {})) + str(n.get('type', {})):
                self.rules['npos'] += 1
                return 'SV_NPOS'          # std::string_view::npos / std::string::npos: size_t(-1)
            raise Unsupported('reference to unknown variable %s at %s' % (r.get('name'), self.where(n)))
        if rk == 'EnumConstantDecl':
            return self.enum_const(rid, r)
        if rk in ('FunctionDecl', 'CXXMethodDecl'):
            d = self.byid.get(rid)
            if d is None: raise Unsupported('function reference outside unit: ' + r.get('name', '?'))
            return self.want(d)
        raise Unsupported('DeclRefExpr to %s' % rk)

    def enum_const(self, rid, r):
        d = self.byid.get(rid)
        if d is None: raise Unsupported('enum constant %s outside dump' % r.get('name'))
        en = self.parent[rid]
        self.need_enum(en)
        return '%s_%s' % (self.rec_cname(en), d['name'])

    def need_enum(self, en):
        cn = self.rec_cname(en)
        if cn in self.enum_defs: return
        lines = []; nxt = 0
        for c in en.get('inner', []):
            if c.get('kind') != 'EnumConstantDecl': continue
            val = None
            for x in c.get('inner', []):
                v = self.const_value(x)
                if v is not None: val = v
            if val is None: val = nxt
            nxt = val + 1
            lines.append('#define %s_%s ((%s)%d)' % (cn, c['name'], self.enum_ctype(en), val))
            self.enum_vals.setdefault(cn, {})[c['name']] = val
        self.enum_defs[cn] = lines

    def const_value(self, x):
        k = x.get('kind')
        if k == 'ConstantExpr' and 'value' in x:
            try: return int(x['value'])
            except ValueError: pass
        if k == 'IntegerLiteral': return int(x['value'])
        if k in ('ImplicitCastExpr', 'ConstantExpr', 'ParenExpr', 'CStyleCastExpr', 'CXXStaticCastExpr') and x.get('inner'):
            return self.const_value(x['inner'][0])
        if k == 'UnaryOperator' and x.get('opcode') == '-':
            v = self.const_value(x['inner'][0]); return None if v is None else -v
        if k == 'CharacterLiteral': return int(x['value'])
        if k == 'DeclRefExpr' and x['referencedDecl']['kind'] == 'EnumConstantDecl':
            d = self.byid.get(x['referencedDecl']['id'])
            if d is not None:
                en = self.parent[d['id']]; self.need_enum(en)
                return self.enum_vals[self.rec_cname(en)].get(d['name'])
        if k == 'BinaryOperator':
            a = self.const_value(x['inner'][0]); b = self.const_value(x['inner'][1])
            if a is None or b is None: return None
            op = x['opcode']
            return {'+': a + b, '-': a - b, '*': a * b, '|': a | b, '&': a & b, '<<': a << b}.get(op)
        return None

    def static_var(self, d):
        """static data member / namespace-scope constant -> file-scope static const"""
        owner = self.owner_record(d)
        par = self.parent.get(d['id'], {})
        if par.get('kind') == 'DeclStmt':     # function-local static: qualify by the function
            cn = '%s_%s' % (self.cur_cname, d['name'])
            self.local_statics = getattr(self, 'local_statics', {}); cn = self.local_statics.setdefault(d['id'], cn)
        else:
            cn = (self.rec_cname(owner) + '_' if owner is not None and owner.get('name') else '') + d['name']
        if cn not in self.statics:
            self.statics[cn] = None
            init = [c for c in d.get('inner', []) if 'valueCategory' in c or c.get('kind', '').endswith('Expr') or c.get('kind', '').endswith('Literal') or c.get('kind', '').endswith('Operator')]
            t = self.tyq(d['type'])
            if not init: raise Unsupported('static %s without initializer' % cn)
            if t.kind == 'scalar':
                v = self.const_value(init[0])
                if v is not None:
                    self.statics[cn] = '#define %s ((%s)%d)' % (cn, t.c, v)
                else:
                    save = (self.vars, self.pre); self.vars = {}; self.pre = []
                    self.statics[cn] = 'static const %s %s = %s;' % (t.c, cn, self.expr(init[0]))
                    self.vars, self.pre = save
            else:
                self.statics[cn] = self.static_table(cn, t, d, init[0])
            self.rules['static-constant'] += 1
        return cn

    def static_table(self, cn, t, d, init):
        """static lookup table initialised from an initializer list -> static const C aggregate"""
        if t.kind == 'rec' and not t.const:
            # function-local static OBJECT (shared by all calls).  Its one-time construction is dropped: the object is a
            # file-scope global that the harness sets to an arbitrary state (every history the object may have had)
            self.rules['static-local-object'] += 1
            self.dropped['one-time construction of function-local static object'] += 1
            return '%s %s; /* function-local static object */' % (t.c, cn)
        if t.kind == 'rec':
            # constant record: its initialiser through the ordinary expression rules
            save = (self.vars, self.pre); self.vars = {}; self.pre = []
            try:
                v = self.expr(init, rvalue=True)
                if self.pre: raise Unsupported('static constant record %s needs statements to initialise' % cn)
            finally: self.vars, self.pre = save
            self.rules['static-constant-record'] += 1
            return '#define %s (%s)' % (cn, v)
        core = self.skip(init)
        il = None
        for a in core.get('inner', []):
            a2 = self.skip(a)
            if a2.get('kind') == 'CXXStdInitializerListExpr': il = self.skip(a2['inner'][0])
        if t.kind == 'arr':
            lst = core if core.get('kind') == 'InitListExpr' else None
            if lst is None:
                for a in core.get('inner', []):
                    if self.skip(a).get('kind') == 'InitListExpr': lst = self.skip(a)
            if lst is None: raise Unsupported('static std::array %s without initializer list' % cn)
            els = lst.get('inner', [])
            if len(els) == 1 and self.skip(els[0]).get('kind') == 'InitListExpr': els = self.skip(els[0]).get('inner', [])
            save = (self.vars, self.pre); self.vars = {}; self.pre = []
            try: vals = [self.expr(e, rvalue=True) for e in els]
            finally: self.vars, self.pre = save
            self.rules['static-std::array-table'] += 1
            return 'static const %s %s = { {%s} };\n_Static_assert(%d <= %s, "static array %s initializer count");' % (t.c, cn, ', '.join(vals), len(vals), t.n, cn)
        if il is None or t.kind not in ('uset', 'pset'):
            raise Unsupported('static non-scalar %s (%s)' % (cn, t.kind))
        save = (self.vars, self.pre); self.vars = {}; self.pre = []
        try:
            els = il.get('inner', [])
            if t.kind == 'uset':
                vals = [self.expr(e, rvalue=True) for e in els]
                txt = 'static const %s %s = { {%s}, %d, 0 };' % (t.c, cn, ', '.join(vals), len(vals))
            else:
                aa = []; bb = []
                for e in els:
                    pe = self.skip(e)
                    parts = [x for x in pe.get('inner', [])]
                    if len(parts) != 2: raise Unsupported('pair initializer in static table %s' % cn)
                    aa.append(self.expr(parts[0], rvalue=True)); bb.append(self.expr(parts[1], rvalue=True))
                txt = 'static const %s %s = { {%s}, {%s}, %d, 0 };' % (t.c, cn, ', '.join(aa), ', '.join(bb), len(aa))
        finally:
            self.vars, self.pre = save
        self.rules['static-lookup-table'] += 1
        cap = self.containers[t.c].rsplit(',', 1)[1].rstrip(')')
        return txt + '\n_Static_assert(%d <= (%s), "static table %s exceeds the configured capacity");' % (len(els), cap, cn)

    def e_MemberExpr(self, n):
        base = n['inner'][0]
        bt = None
        cb0 = self.skip(base)
        if cb0.get('kind') == 'CXXOperatorCallExpr' and len(cb0.get('inner', [])) == 2:
            try:
                r0 = self.callee_decl(cb0)[1]
                if r0.get('name') == 'operator->' and self.obj_type(cb0['inner'][1]).kind == 'ptr':
                    bt = self.obj_type(cb0['inner'][1])      # smart pointer mapped to a pointer (typemap)
            except Unsupported: pass
        if bt is None: bt = self.tyq(base['type'])
        name = n['name']
        # static data member through object
        rid = n.get('referencedMemberDecl')
        d = self.byid.get(rid)
        if d is not None and d.get('kind') == 'VarDecl':
            return self.static_var(d)
        cb = self.skip(base)
        if cb.get('kind') == 'DeclRefExpr' and self.vars.get(cb['referencedDecl']['id'], (None,))[0] == 'mapelem' and name in ('first', 'second'):
            rng, ix = self.vars[cb['referencedDecl']['id']][1]
            return '%s.%s[%s]' % (rng, 'keys' if name == 'first' else 'vals', ix)
        b = self.expr(base)
        if d is not None and d.get('kind') == 'FieldDecl' and self.tyq(d['type']).ref:
            # reference member stored as pointer
            if n.get('isArrow'):
                return '(*%s->%s)' % (b, name) if b != '(&this_v)' else '(*this_v.%s)' % name
            return '(*%s.%s)' % (b, name)
        if n.get('isArrow'):
            if bt.kind == 'ptr' and bt.elem.kind == 'opaque':
                raise Unsupported('field %s of opaque %s at %s' % (name, bt.elem.c, self.where(n)))
            if b == '(&this_v)': return 'this_v.' + name
            return '%s->%s' % (b, name)
        if bt.kind == 'opaque':
            raise Unsupported('field %s of opaque %s at %s' % (name, bt.c, self.where(n)))
        m = re.fullmatch(r'\(\*([A-Za-z_][A-Za-z0-9_]*)\)', b)
        if m: return '%s->%s' % (m.group(1), name)
        return '%s.%s' % (b, name)

    # ------------------------------------------------------------ operators
    def e_UnaryOperator(self, n):
        op = n['opcode']; a = self.expr(n['inner'][0])
        if op in ('++', '--'):
            return '(%s%s)' % (a, op) if n.get('isPostfix') else '(%s%s)' % (op, a)
        if op == '*': return self.deref(a)
        if op == '&': return self.addr(a)
        if op in ('-', '+', '!', '~'): return '(%s%s)' % (op, a)
        raise Unsupported('unary ' + op)

    def e_BinaryOperator(self, n):
        op = n['opcode']; l, r = n['inner']
        if op in ('&&', '||'):
            a = self.expr(l)
            npre = len(self.pre)
            self.inline_checks += 1
            try: b = self.expr(r)
            finally: self.inline_checks -= 1
            if len(self.pre) != npre:
                # temporaries of the right operand live (and are evaluated) only if the operand is: GNU statement expression
                stm = self.pre[npre:]; del self.pre[npre:]
                self.rules['short-circuit-temporaries'] += 1
                b = '({ %s %s; })' % (' '.join(stm), b)
            return '(%s %s %s)' % (a, op, b)
        if op == ',':
            return '(%s, %s)' % (self.expr(l), self.expr(r))
        lt = self.tyq(l['type'])
        if op == '=' and lt.kind in ('vec', 'uset', 'umap', 'list') :
            return self.assign_rhs_first(l, r, lt)
        return '(%s %s %s)' % (self.expr(l), op, self.expr(r))

    def e_CompoundAssignOperator(self, n):
        l, r = n['inner']
        return '(%s %s %s)' % (self.expr(l), n['opcode'], self.expr(r))

    def e_ConditionalOperator(self, n):
        c, a, b = n['inner']
        if self.calls_named(b, '__assert_fail'):
            self.rules['source-assert'] += 1
            return 'CC_SRC_ASSERT(%s)' % self.expr(c)
        cc = self.expr(c); npre = len(self.pre)
        self.inline_checks += 1
        try: aa = self.expr(a); bb = self.expr(b)
        finally: self.inline_checks -= 1
        if len(self.pre) != npre: raise Unsupported('temporary inside ?: at ' + self.where(n))
        return '(%s ? %s : %s)' % (cc, aa, bb)

    def calls_named(self, n, name):
        if not isinstance(n, dict): return False
        if n.get('kind') == 'DeclRefExpr' and n.get('referencedDecl', {}).get('name') == name: return True
        return any(self.calls_named(c, name) for c in n.get('inner', []))

    def e_ArraySubscriptExpr(self, n):
        a, i = n['inner']
        return '%s[%s]' % (self.expr(a), self.expr(i))

    # ------------------------------------------------------------ casts
    def e_ImplicitCastExpr(self, n, rvalue=False):
        ck = n.get('castKind'); c = n['inner'][0]
        self.rules['cast:' + ck] += 1
        if ck == 'LValueToRValue':
            return self.expr(c, rvalue=True)
        if ck in ('NoOp', 'FunctionToPointerDecay', 'ConstructorConversion', 'UserDefinedConversion', 'ArrayToPointerDecay',
                  'DerivedToBase', 'UncheckedDerivedToBase'):
            return self.expr(c, rvalue=rvalue)
        if ck in ('IntegralCast', 'IntegralToBoolean', 'BooleanToSignedIntegral', 'IntegralToFloating', 'FloatingToIntegral'):
            t = self.tyq(n['type'])
            if ck == 'IntegralToBoolean': return '((cc_bool)(%s != 0))' % self.expr(c)
            return '((%s)%s)' % (t.c, self.expr(c))
        if ck == 'PointerToBoolean':
            return '((cc_bool)(%s != 0))' % self.expr(c)
        if ck == 'NullToPointer':
            return '0'
        if ck == 'ToVoid':
            return '((void)%s)' % self.expr(c)
        if ck == 'BitCast':
            return '((%s)%s)' % (self.tyq(n['type']).c, self.expr(c))
        raise Unsupported('cast kind %s at %s' % (ck, self.where(n)))

    def e_CXXStaticCastExpr(self, n): return self.e_ImplicitCastExpr(n) if n.get('castKind') != 'NoOp' else self.expr(n['inner'][0])
    def e_CStyleCastExpr(self, n): return self.e_CXXStaticCastExpr(n)
    def e_CXXFunctionalCastExpr(self, n):
        if n.get('castKind') in ('NoOp', 'ConstructorConversion'): return self.expr(n['inner'][0])
        return self.e_ImplicitCastExpr(n)
    def e_CXXReinterpretCastExpr(self, n):
        return '((%s)%s)' % (self.tyq(n['type']).c, self.expr(n['inner'][0]))
    def e_CXXConstCastExpr(self, n): return self.expr(n['inner'][0])

    # ------------------------------------------------------------ construction
    def e_InitListExpr(self, n):
        t = self.tyq(n['type']); ks = n.get('inner', [])
        if t.kind in ('scalar', 'ptr'):
            return '((%s)%s)' % (t.c, self.expr(ks[0])) if ks else '((%s)0)' % t.c
        return self.construct(t, ks, n)

    def e_CXXTemporaryObjectExpr(self, n): return self.e_CXXConstructExpr(n)

    def e_CXXConstructExpr(self, n):
        t = self.tyq(n['type']); args = n.get('inner', [])
        ct = n.get('ctorType', {}).get('qualType', '')
        return self.construct(t, args, n, ct)

    def e_CXXScalarValueInitExpr(self, n):
        return '((%s)0)' % self.tyq(n['type']).c

    def construct(self, t, args, n, ctor_type=''):
        args = [a for a in args if a.get('kind') != 'CXXDefaultArgExpr' or True]
        # copy / move construction
        if len(args) == 1:
            at = None
            try: at = self.tyq(args[0]['type'])
            except Unsupported: pass
            if at is not None and at.c == t.c and t.kind != 'scalar':
                self.rules['copy-or-move-as-copy'] += 1
                return self.expr(args[0])
        if t.kind == 'scalar':
            return '((%s)%s)' % (t.c, self.expr(args[0])) if args else '((%s)0)' % t.c
        if t.kind == 'sv':
            if not args: return 'sv_empty_make()'
            if len(args) == 2: return 'sv_make(%s, (size_t)%s)' % (self.expr(args[0]), self.expr(args[1]))
            a0 = self.skip(args[0])
            while a0.get('kind') == 'ImplicitCastExpr' and a0.get('inner'): a0 = self.skip(a0['inner'][0])      # array-to-pointer decay of a literal
            if a0.get('kind') == 'StringLiteral':
                s = a0['value']
                return 'sv_make(%s, sizeof(%s)-1)' % (s, s)
            raise Unsupported('string_view from %s at %s' % (a0.get('kind'), self.where(n)))
        if t.kind == 'opt':
            if not args: return '%s_none()' % t.c
            a0 = self.skip(args[0])
            if 'nullopt' in (a0.get('type', {}).get('qualType', '')): return '%s_none()' % t.c
            if len(args) == 1: return '%s_some(%s)' % (t.c, self.convert_to(t.elem, args[0]))
            raise Unsupported('optional in-place construction')
        if t.kind == 'vec':
            args2 = [a for a in args if a.get('kind') != 'CXXDefaultArgExpr']
            if not args2: return '%s_new()' % t.c
            if len(args2) == 2 and t.elem.kind == 'scalar':
                self.rules['vector(n,value)'] += 1
                return '%s_filled((size_t)%s, %s)' % (t.c, self.expr(args2[0]), self.expr(args2[1]))
            if len(args2) == 1 and self.skip(args2[0]).get('kind') == 'CXXStdInitializerListExpr':
                il = self.skip(self.skip(args2[0])['inner'][0])
                els = il.get('inner', []) if il.get('kind') == 'InitListExpr' else None
                if els is not None and self.inline_checks == 0:
                    tn = self.tmp('il'); self.pre.append('%s %s = %s_new();' % (t.c, tn, t.c))
                    for e in els: self.pre.append('%s_push_back(&%s, %s);' % (t.c, tn, self.expr(e, rvalue=True)))
                    self.rules['vector{initializer list}'] += 1
                    return tn
            raise Unsupported('vector constructor with %d args at %s' % (len(args2), self.where(n)))
        if t.kind in ('uset', 'umap'):
            args2 = [a for a in args if a.get('kind') != 'CXXDefaultArgExpr']
            if not args2: return '%s_new()' % t.c
            il = self.skip(args2[0])
            if t.kind == 'uset' and il.get('kind') == 'CXXStdInitializerListExpr':
                lst = self.skip(il['inner'][0])
                els = lst.get('inner', [])
                if 1 <= len(els) <= 2:
                    self.rules['unordered_set{initializer-list}'] += 1
                    return '%s_of%d(%s)' % (t.c, len(els), ', '.join(self.expr(e, rvalue=True) for e in els))
            raise Unsupported('%s constructor at %s' % (t.c, self.where(n)))
        if t.kind == 'pair':
            if len(args) == 2: return '%s_make(%s, %s)' % (t.c, self.expr(args[0]), self.expr(args[1]))
        if t.kind == 'rec':
            return self.construct_record(t, args, n, ctor_type)
        h = self.u_hook('construct', t, args, n)
        if h is not None: return h
        if t.kind == 'opaque':
            args2 = self.flatten_init([a for a in args if a.get('kind') != 'CXXDefaultArgExpr'])
            self.rules['opaque-construction'] += 1
            suffix = []; atxt = []; ptxt = []
            for i, a in enumerate(args2):
                a0 = self.skip(a)
                if a0.get('kind') == 'LambdaExpr':
                    # a closure converted to an opaque callback type (std::function): the callback is opaque to the
                    # verified text, so its body is not part of it; the stub receives the source line of the lambda
                    suffix.append('lambda'); atxt.append(str(a0.get('range', {}).get('begin', {}).get('line', 0) or 0)); ptxt.append('int a%d' % i)
                    self.rules['lambda-to-opaque-callback'] += 1; self.dropped['body of a lambda converted to an opaque callback'] += 1
                    continue
                at = self.tyq(a['type']); suffix.append(cident(at.c))
                if a0.get('kind') == 'StringLiteral':
                    atxt.append(a0['value']); ptxt.append('const char* a%d' % i); suffix[-1] = 'lit'
                elif self.big(at) or at.kind == 'opaque':
                    if self.is_lv(a0):
                        atxt.append(self.addr(self.expr(a0)))
                    else:
                        tn = self.tmp('arg'); self.pre.append('%s %s = %s;' % (at.c, tn, ('{0}' if at.kind == 'opaque' and self.skip(a).get('kind') == 'CXXNullPtrLiteralExpr' else self.expr(a)))); atxt.append('&' + tn)
                    ptxt.append('const %s* a%d' % (at.c, i))
                else:
                    atxt.append(self.expr(a, rvalue=True)); ptxt.append('%s a%d' % (at.c, i))
            cn = '%s_ctor%s' % (t.c, ('__' + '_'.join(suffix)) if suffix else '')
            self.autostubs.setdefault(cn, '%s %s(%s);' % (t.c, cn, ', '.join(ptxt) or 'void'))
            self.fninfo.setdefault(cn, {'qname': t.c + '::ctor', 'stub': True})
            return '%s(%s)' % (cn, ', '.join(atxt))
        if t.kind == 'ptr':
            a2 = [a for a in args if a.get('kind') != 'CXXDefaultArgExpr']
            if not a2 or (len(a2) == 1 and self.skip(a2[0]).get('kind') == 'CXXNullPtrLiteralExpr'):
                return '((%s)0)' % t.c          # empty smart pointer (mapped to a plain pointer)
            if len(a2) == 1: return self.expr(a2[0], rvalue=True)
        raise Unsupported('construction of %s (%s) at %s' % (t.c, t.kind, self.where(n)))

    def flatten_init(self, args):
        """arguments of an opaque construction: initializer lists and std::pair temporaries are flattened
        to their leaf expressions (the stub sees the values, not the library wrappers)"""
        out = []
        for a in args:
            c = self.skip(a)
            if c.get('kind') == 'CXXStdInitializerListExpr':
                lst = self.skip(c['inner'][0])
                out += self.flatten_init(lst.get('inner', []))
            elif c.get('kind') in ('InitListExpr',) :
                out += self.flatten_init(c.get('inner', []))
            elif c.get('kind') in ('CXXConstructExpr', 'CXXTemporaryObjectExpr') and re.match(r'(const )?std::pair<', (c.get('type', {}).get('desugaredQualType') or c.get('type', {}).get('qualType') or '')):
                out += self.flatten_init(c.get('inner', []))
            else:
                out.append(a)
        return out

    def convert_to(self, t, arg):
        return self.expr(arg)

    def record_ctors(self, r):
        return [c for c in r.get('inner', []) if c.get('kind') == 'CXXConstructorDecl' and not c.get('isImplicit')]

    def construct_record(self, t, args, n, ctor_type):
        r = t.rec
        ctors = self.record_ctors(r)
        # find by referenced constructor type string
        cand = None
        norm = lambda s: re.sub(r'\s+', '', s or '')
        for c in ctors:
            if norm(c.get('type', {}).get('qualType')) == norm(ctor_type): cand = c
        if cand is None and ctors:
            byar = [c for c in ctors if len(self.params_of(c)) == len(args)]
            if len(byar) == 1: cand = byar[0]
        if cand is None:
            if not args or ctor_type.replace(' ', '') in ('void()noexcept', 'void()'):
                # implicit / defaulted default constructor: field initialisers
                return self.want_default_ctor(r)
            # aggregate initialisation
            fields = [f for f in r.get('inner', []) if f.get('kind') == 'FieldDecl']
            if len(args) <= len(fields) and not ctors:
                self.rules['aggregate-init'] += 1
                vals = []
                for i, f in enumerate(fields):
                    a = args[i] if i < len(args) else None
                    if a is not None and a.get('kind') != 'CXXDefaultInitExpr' and a.get('kind') != 'ImplicitValueInitExpr':
                        vals.append(self.expr(a, rvalue=True)); continue
                    fi = [c for c in f.get('inner', []) if c.get('kind') not in ('FullComment',)]
                    ft = self.tyq(f['type'])
                    if fi: vals.append(self.expr(fi[0], rvalue=True))
                    elif ft.kind in ('scalar', 'ptr'): vals.append('0')
                    else: vals.append(self.construct(ft, [], f))
                return '((%s){%s})' % (t.c, ', '.join(vals))
            raise Unsupported('no constructor of %s matches %r at %s' % (t.c, ctor_type, self.where(n)))
        if cand.get('explicitlyDefaulted') and not self.params_of(cand):
            return self.want_default_ctor(r)
        fn = self.want(cand)
        return '%s(%s)' % (fn, ', '.join(self.call_args(cand, args)))

    def want_default_ctor(self, r):
        cn = self.rec_cname(r) + '_default'
        if cn not in self.bodies and cn not in self.pending_defaults:
            self.pending_defaults[cn] = r
        return cn + '()'

    # ------------------------------------------------------------ calls
    def wrap_wb(self, d, call):
        """wrap a call whose reference arguments were passed as copies: declare, call, write back"""
        wb = self.wb or []; self.wb = None
        if not wb: return call
        rt = self.ret_type(d)
        decl = ' '.join('%s %s = %s;' % (c, tn, lv) for c, tn, lv, ro in wb); back = ' '.join('%s = %s;' % (lv, tn) for c, tn, lv, ro in wb if not ro)   # const reference parameters are not written back
        if rt.kind == 'void': return '({ %s %s; %s (void)0; })' % (decl, call, back)
        if rt.ref and (not rt.const or self.big(rt)): raise Unsupported('reference result of a call with nested-element reference arguments')
        return '({ %s %s r_ = %s; %s r_; })' % (decl, rt.c, call, back)

    def call_args(self, d, args, skip_first=0):
        ps = self.params_of(d)
        mine = []; self.wb = mine
        out = []
        for i, p in enumerate(ps):
            if i < len(args) and args[i].get('kind') != 'CXXDefaultArgExpr':
                self.wb = mine
                out.append(self.as_arg(args[i], self.param_storage(p), self.tyq(p['type'])))
                self.wb = mine
            else:
                init = [c for c in p.get('inner', []) if c.get('kind') not in ('FullComment',)]
                if not init: raise Unsupported('missing default argument for %s' % p.get('name'))
                self.rules['default-argument'] += 1
                if self.param_storage(p) == 'ptr':
                    # default argument bound to a reference parameter: materialise it
                    pt = self.tyq(p['type']); tn = self.tmp('dflt')
                    self.pre.append('%s %s = %s;' % (pt.c, tn, self.expr(init[0], rvalue=True)))
                    out.append('&' + tn)
                else:
                    out.append(self.expr(init[0]))
        return out

    def e_CallExpr(self, n, rvalue=False):
        d, r = self.callee_decl(n)
        args = n['inner'][1:]
        name = r.get('name', '')
        if d is None or d.get('kind') not in ('FunctionDecl', 'CXXMethodDecl'):
            h = self.lib_call(name, r, args, n, rvalue)
            if h is not None: return h
            raise Unsupported('call to %s (%s) outside unit at %s' % (name, r.get('type', {}).get('qualType'), self.where(n)))
        if self.is_external(d):
            return self.autostub_call(d, None, args, n)
        fn = self.want(d)
        call = '%s(%s)' % (fn, ', '.join(self.call_args(d, args)))
        if self.wb: return self.wrap_wb(d, call)
        self.wb = None
        return self.wrap_ref_result(d, call)

    def wrap_ref_result(self, d, call):
        rt = self.ret_type(d)
        if rt.ref and (not rt.const or self.big(rt)) and rt.kind != 'void':
            return '(*%s)' % call
        return call

    def ret_type(self, d):
        q = d['type']['qualType'].replace('(anonymous namespace)', '{anon}')
        # return type = text before the parameter list's opening paren at depth 0
        depth = 0
        for i, ch in enumerate(q):
            if ch == '<': depth += 1
            elif ch == '>': depth -= 1
            elif ch == '(' and depth == 0:
                return self.ty(q[:i].strip().replace('{anon}', '(anon)'))
        raise Unsupported('cannot parse function type ' + q)

    def e_CXXMemberCallExpr(self, n, rvalue=False):
        me = self.skip(n['inner'][0])
        args = n['inner'][1:]
        if me.get('kind') != 'MemberExpr': raise Unsupported('member call through %s' % me.get('kind'))
        obj = me['inner'][0]
        d = self.byid.get(me.get('referencedMemberDecl'))
        ot = self.etype(obj)
        if ot.kind == 'ptr' and me.get('isArrow'): otk = ot.elem
        else: otk = ot
        vs = self.u.get('visit_sequences', {})
        if me.get('name') in vs and len(args) == 1:
            return self.visit_sequence(vs[me['name']], obj, me.get('isArrow'), args[0], n)
        if d is not None and d.get('kind') in ('CXXMethodDecl', 'CXXConversionDecl') and otk.kind == 'rec' and not self.is_external(d):
            return self.method_call(d, obj, me.get('isArrow'), args, n)
        if d is not None and d.get('kind') in ('CXXMethodDecl', 'CXXConversionDecl'):
            return self.autostub_call(d, (obj, me.get('isArrow')), args, n)
        h = self.lib_method(otk, me['name'], obj, me.get('isArrow'), args, n, rvalue)
        if h is not None: return h
        raise Unsupported('method %s on %s (%s) at %s' % (me['name'], otk.c, otk.kind, self.where(n)))

    def visit_sequence(self, cname, obj, is_arrow, arg, n):
        """obj.Visit(visitor) for a member listed in the unit's 'visit_sequences' (a traversal that calls the visitor
        once per node, in a fixed order): a loop over the abstract node sequence <cname>_count(obj) /
        <cname>_node(obj, k) with the body of the local lambda inlined.  The traversal itself (a recursive member
        template of the visited class) is NOT part of the verified text: its contract is the pair of stubs."""
        import cxx2c_idioms
        a = self.skip(arg)
        lam = self.lambda_vars.get(a.get('referencedDecl', {}).get('id')) if a.get('kind') == 'DeclRefExpr' else (a if a.get('kind') == 'LambdaExpr' else None)
        if lam is None: raise Unsupported('visit sequence with a visitor that is not a local lambda at ' + self.where(n))
        op = cxx2c_idioms.lambda_call_op(self, lam)
        params = self.params_of(op)
        if len(params) != 1: raise Unsupported('visitor lambda with %d parameters' % len(params))
        body = [c for c in op.get('inner', []) if c.get('kind') == 'CompoundStmt'][0]
        def has_return(x):
            if isinstance(x, dict):
                if x.get('kind') == 'ReturnStmt': return True
                if x.get('kind') == 'LambdaExpr': return False
                return any(has_return(c) for c in x.get('inner', []))
            return False
        if has_return(body): raise Unsupported('visitor lambda with a return statement at ' + self.where(n))
        o = self.expr(obj)
        optr = o if is_arrow else self.addr(o)
        pt = self.tyq(params[0]['type'])
        k = self.loopn + 1
        j = 'j_L%d_' % k; cnt = 'n_L%d_' % k
        self.autostubs.setdefault(cname + '_count', 'size_t %s_count(const %s* host);' % (cname, pt.c))
        self.autostubs.setdefault(cname + '_node', 'const %s* %s_node(const %s* host, size_t k);' % (pt.c, cname, pt.c))
        self.fninfo.setdefault(cname + '_count', {'qname': cname + '::count', 'stub': True}); self.fninfo.setdefault(cname + '_node', {'qname': cname + '::node', 'stub': True})
        saved = self.pre; self.pre = []
        out = []
        out.append('{ size_t %s = %s_count(%s); size_t %s; for (%s = 0; %s < %s; ++%s)' % (cnt, cname, optr, j, j, j, cnt, j))
        out.append(self.loop_marker())
        self.vars[params[0]['id']] = ('alias', '(*%s_node(%s, %s))' % (cname, optr, j))
        self.stmt(body, out, '  ')
        out.append('}')
        self.pre = saved + out
        self.rules['visit-sequence-as-loop(lambda inlined)'] += 1
        self.dropped['traversal order of %s (contract: one visitor call per node, pre-order)' % cname] += 1
        return '((void)0)'

    def obj_text(self, obj, is_arrow):
        """C lvalue text of the object of a member call"""
        b = self.expr(obj)
        return self.deref(b) if is_arrow else b

    def method_call(self, d, obj, is_arrow, args, n):
        fn = self.want(d)
        owner = self.owner_record(d)
        a = self.call_args(d, args)
        wb_pending = self.wb; self.wb = None
        if self.is_static_method(d):
            return self.wrap_ref_result(d, '%s(%s)' % (fn, ', '.join(a)))
        byptr = (not self.is_const_method(d)) or self.this_by_pointer(owner)
        if byptr:
            core = self.skip(obj)
            if is_arrow:
                o = self.expr(obj)
                if o == '(&this_v)':
                    raise Unsupported('non-const method %s called from by-value const method' % fn)
            elif self.is_lv(core):
                o = self.addr(self.expr(obj))
            else:
                t = self.tyq(obj['type']); tn = self.tmp('obj')
                self.pre.append('%s %s = %s;' % (t.c, tn, self.expr(obj)))
                o = '&' + tn
        else:
            o = self.obj_text(obj, is_arrow)
        if byptr and not self.is_const_method(d) and o.startswith('&(') and '.data[' in o:
            # non-const method on an element nested in a container: run on a copy and write back
            # (CBMC 6.11 mis-reads through pointers to nested array elements, DESIGN §2 item 8);
            # the (reference-to-self) result is not available in this form
            lv = o[2:-1]; ot = self.rec_cname(owner); tn = self.tmp('c')
            self.rules['nested-element-method-by-copy'] += 1
            return '({ %s %s = %s; %s(%s); %s = %s; (void)0; })' % (ot, tn, lv, fn, ', '.join(['&' + tn] + a), lv, tn)
        if wb_pending:
            self.wb = wb_pending
            return self.wrap_wb(d, '%s(%s)' % (fn, ', '.join([o] + a)))
        return self.wrap_ref_result(d, '%s(%s)' % (fn, ', '.join([o] + a)))

    def e_CXXOperatorCallExpr(self, n, rvalue=False):
        d, r = self.callee_decl(n)
        args = n['inner'][1:]
        name = r.get('name', '')
        if name in ('operator->', 'operator*') and len(args) == 1 and self.obj_type(args[0]).kind == 'ptr':
            # smart pointer mapped to a plain pointer by the unit description (typemap): ownership is not modelled
            self.rules['smart-pointer-as-pointer'] += 1
            o = self.expr(args[0])
            return o if name == 'operator->' else '(*%s)' % o
        if name == 'operator=' and len(args) == 2 and self.obj_type(args[0]).kind == 'ptr':
            return '(%s = %s)' % (self.expr(args[0]), self.expr(args[1], rvalue=True))
        if name == 'operator=' and d is not None and (d.get('isImplicit') or d.get('explicitlyDefaulted')):
            # implicit / defaulted copy or move assignment of a record = C struct assignment
            self.rules['implicit-assignment-as-struct-copy'] += 1
            return self.assign_rhs_first(args[0], args[1], self.etype(args[0]))
        if name == 'operator=' and d is None and len(args) == 2:
            lt = self.etype(args[0])
            if lt.kind == 'opt':
                rt_ = None
                try: rt_ = self.tyq(self.skip(args[1])['type'])
                except Unsupported: pass
                if rt_ is not None and rt_.kind != 'opt':
                    if 'nullopt' in (self.skip(args[1]).get('type', {}).get('qualType', '')):
                        return '(%s = %s_none())' % (self.expr(args[0]), lt.c)
                    self.rules['optional = value'] += 1
                    return '(%s = %s_some(%s))' % (self.expr(args[0]), lt.c, self.expr(args[1], rvalue=True))
            if lt.kind in ('sv', 'opt', 'pair', 'vec', 'uset', 'umap'):
                return self.assign_rhs_first(args[0], args[1], lt)
        if d is not None and d.get('kind') == 'CXXMethodDecl' and not self.is_external(d):
            owner = self.owner_record(d)
            if owner is not None and self.record_mode(owner) == 'transparent':
                return self.method_call(d, args[0], False, args[1:], n)
        if d is not None and d.get('kind') == 'FunctionDecl' and not self.is_external(d):
            fn = self.want(d)
            return self.wrap_ref_result(d, '%s(%s)' % (fn, ', '.join(self.call_args(d, args))))
        if d is not None:
            if d.get('kind') == 'CXXMethodDecl':
                return self.autostub_call(d, (args[0], False), args[1:], n)
            return self.autostub_call(d, None, args, n)
        ot = self.etype(args[0])
        h = self.lib_operator(ot, name[len('operator'):].strip(), args, n, rvalue)
        if h is not None: return h
        if name == 'operator+' and len(args) == 2:
            # concatenation of an abstract string with a character literal / another abstract string (library template, no
            # declaration to stub): one stub per operand shape; the text is not modelled, the spec gives the result an identity
            t1 = self.etype(args[1])
            kinds = (ot.kind, t1.kind)
            if 'opaque' in kinds and all(k in ('opaque', 'ptr') for k in kinds):
                st = ot if ot.kind == 'opaque' else t1
                texts = []; protos = []; shape = []
                for i, (a, t) in enumerate(((args[0], ot), (args[1], t1))):
                    if t.kind == 'opaque':
                        tn = self.tmp('s'); self.pre.append('%s %s = %s;' % (t.c, tn, self.expr(a, rvalue=True)))
                        texts.append('&' + tn); protos.append('const %s* a%d' % (t.c, i)); shape.append(t.c)
                    else:
                        texts.append(self.expr(a, rvalue=True)); protos.append('const char* a%d' % i); shape.append('cstr')
                cn = '%s_op_plus__%s' % (st.c, '_'.join(shape))
                self.autostubs.setdefault(cn, '%s %s(%s);' % (st.c, cn, ', '.join(protos))); self.fninfo.setdefault(cn, {'qname': cn, 'stub': True})
                self.rules['string-concatenation-as-stub'] += 1
                return '%s(%s)' % (cn, ', '.join(texts))
        raise Unsupported('operator %s on %s (%s) at %s' % (name, ot.c, ot.kind, self.where(n)))

    def e_CXXDefaultArgExpr(self, n):
        raise Unsupported('bare CXXDefaultArgExpr at ' + self.where(n))

    def e_CXXDefaultInitExpr(self, n):
        raise Unsupported('bare CXXDefaultInitExpr')

    def u_hook(self, what, *a):
        for h in self.hooks.get(what, []):
            r = h(self, *a)
            if r is not None: return r
        return None
