"""Statement / function rules of cxx2c (mixin) and the unit driver."""
import re, collections
from cxx2c import Unsupported, Ty, cident

EXPR_STMT_KINDS = None

class StmtMixin:
    # ------------------------------------------------------------ queue
    def want(self, d):
        dd = self.definition_of(d) or d
        cn = self.fn_cname(d)
        self.cnames[dd['id']] = cn
        if cn not in self.bodies and dd['id'] not in [x['id'] for x in self.wanted]:
            self.wanted.append(dd)
        return cn

    # ------------------------------------------------------------ statements
    def flush(self, out, ind):
        for p in self.pre: out.append(ind + p)
        self.pre.clear()

    def no_pre(self, what, n):
        if self.pre:
            raise Unsupported('%s needs a hoisted temporary/obligation (%s) at %s' % (what, self.pre[0][:60], self.where(n)))

    def stmt(self, n, out, ind):
        k = n.get('kind')
        self.rules['stmt:' + str(k)] += 1
        if k == 'CompoundStmt':
            out.append(ind + '{')
            for c in n.get('inner', []): self.stmt(c, out, ind + '  ')
            out.append(ind + '}')
        elif k == 'DeclStmt':
            for c in n.get('inner', []):
                if c.get('kind') == 'VarDecl':
                    ini = [x for x in c.get('inner', []) if x.get('kind') not in ('FullComment',)]
                    if ini and self.skip(ini[-1]).get('kind') == 'LambdaExpr' and self.u.get('visit_sequences'):
                        # a local closure: only usable as the visitor of a declared visit sequence (inlined there)
                        self.lambda_vars[c['id']] = self.skip(ini[-1]); self.rules['local-lambda-variable'] += 1
                        continue
                    self.vardecl(c, out, ind)
                elif c.get('kind') == 'DecompositionDecl':
                    import cxx2c_idioms
                    cxx2c_idioms.decomposition(self, c, out, ind)
                elif c.get('kind') in ('TypeAliasDecl', 'TypedefDecl', 'StaticAssertDecl', 'UsingDecl'): pass
                else: raise Unsupported('declaration %s at %s' % (c.get('kind'), self.where(n)))
        elif k == 'ReturnStmt':
            ks = n.get('inner', [])
            if not ks:
                out.append(ind + self.ret_stmt(None)); return
            rt = self.cur_ret
            if rt.ref and (not rt.const or self.big(rt)):
                e = self.addr(self.expr(ks[0]))
            else:
                e = self.expr(ks[0], rvalue=True)
            self.flush(out, ind)
            out.append(ind + self.ret_stmt(e))
        elif k == 'IfStmt':
            ks = list(n['inner'])
            out.append(ind + '{'); i2 = ind + '  '
            if n.get('hasInit'):
                self.stmt(ks.pop(0), out, i2)
            if n.get('hasVar'):
                self.stmt(ks.pop(0), out, i2)
            cond = self.expr(ks[0]); self.flush(out, i2)
            out.append(i2 + 'if (%s)' % cond)
            self.block(ks[1], out, i2)
            if len(ks) > 2:
                out.append(i2 + 'else')
                self.block(ks[2], out, i2)
            out.append(ind + '}')
        elif k == 'ForStmt':
            init, condvar, cond, inc, body = n['inner']
            out.append(ind + '{'); i2 = ind + '  '
            if init: self.stmt(init, out, i2)
            if condvar: raise Unsupported('for with condition variable')
            self.inline_checks += 1
            cond_pre = None
            try:
                c = self.expr(cond) if cond else '1'
                if self.pre:
                    # the condition needs statements (temporaries / obligations): evaluated at the top of every iteration
                    cond_pre = list(self.pre); self.pre.clear(); self.rules['for-condition-with-statements'] += 1
                i = self.expr(inc) if inc else ''; self.no_pre('for increment', n)
            finally: self.inline_checks -= 1
            if cond_pre is None:
                out.append(i2 + 'for (; %s; %s)' % (c, i))
                out.append(i2 + self.loop_marker())
                self.block(body, out, i2)
            else:
                out.append(i2 + 'for (; ; %s)' % i)
                out.append(i2 + self.loop_marker())
                out.append(i2 + '{')
                for p_ in cond_pre: out.append(i2 + '  ' + p_)
                out.append(i2 + '  if (!(%s)) break;' % c)
                self.block(body, out, i2 + '  ')
                out.append(i2 + '}')
            out.append(ind + '}')
        elif k == 'WhileStmt':
            ks = n['inner']
            if len(ks) == 3: raise Unsupported('while with condition variable')
            self.inline_checks += 1
            try: c = self.expr(ks[0]); self.no_pre('while condition', n)
            finally: self.inline_checks -= 1
            out.append(ind + 'while (%s)' % c)
            out.append(ind + self.loop_marker())
            self.block(ks[-1], out, ind)
        elif k == 'DoStmt':
            body, cond = n['inner']
            out.append(ind + 'do')
            out.append(ind + self.loop_marker())
            self.block(body, out, ind)
            self.inline_checks += 1
            try: c = self.expr(cond); self.no_pre('do-while condition', n)
            finally: self.inline_checks -= 1
            out.append(ind + 'while (%s);' % c)
        elif k == 'CXXForRangeStmt':
            self.range_for(n, out, ind)
        elif k == 'BreakStmt': out.append(ind + 'break;')
        elif k == 'ContinueStmt':
            if self.range_cleanup and self.range_cleanup[-1]:
                out.append(ind + '{ %s continue; }' % self.range_cleanup[-1])
            else:
                out.append(ind + 'continue;')
        elif k == 'NullStmt': out.append(ind + ';')
        elif k == 'SwitchStmt':
            ks = list(n['inner'])
            if n.get('hasInit') or n.get('hasVar'): raise Unsupported('switch with init')
            c = self.expr(ks[0]); self.flush(out, ind)
            out.append(ind + 'switch (%s)' % c)
            self.range_cleanup.append(None)
            self.stmt(ks[1], out, ind)
            self.range_cleanup.pop()
        elif k == 'CaseStmt':
            ks = n['inner']
            v = self.const_value(ks[0])
            out.append(ind + 'case %s:' % (str(v) if v is not None else self.expr(ks[0])))
            self.case_body(ks[-1], out, ind + '  ')
        elif k == 'DefaultStmt':
            out.append(ind + 'default:')
            self.case_body(n['inner'][0], out, ind + '  ')
        elif k == 'CXXTryStmt' or k == 'CXXThrowExpr':
            h = self.u_hook('stmt', n, out, ind)
            if h is None: raise Unsupported('%s at %s' % (k, self.where(n)))
        elif k in ('AttributedStmt',):
            self.stmt(n['inner'][-1], out, ind)
        else:
            # expression statement
            h = self.u_hook('stmt', n, out, ind)
            if h is not None: return
            e = self.expr(n)
            self.flush(out, ind)
            out.append(ind + e + ';')

    def case_body(self, n, out, ind):
        """statement labelled by case/default: nested labels stay labels; anything else goes into a block
        (hoisted temporaries are declarations, which C does not allow directly after a label)"""
        if n.get('kind') in ('CaseStmt', 'DefaultStmt', 'CompoundStmt'):
            self.stmt(n, out, ind)
        else:
            out.append(ind + '{'); self.stmt(n, out, ind + '  '); out.append(ind + '}')

    def ret_stmt(self, e):
        if self.ctor_mode:
            return 'return self_;'
        return 'return;' if e is None else 'return %s;' % e

    def block(self, n, out, ind):
        if n.get('kind') == 'CompoundStmt':
            self.stmt(n, out, ind)
        else:
            out.append(ind + '{')
            self.stmt(n, out, ind + '  ')
            out.append(ind + '}')

    def loop_marker(self):
        self.loopn += 1
        return '/*@LOOP:%s:%d@*/' % (self.cur_cname, self.loopn)

    # ------------------------------------------------------------ variables
    def var_init_expr(self, d):
        ks = [c for c in d.get('inner', []) if c.get('kind') not in ('FullComment',) and not c.get('kind', '').endswith('Attr')]
        return ks[0] if ks else None

    def vardecl(self, d, out, ind):
        t = self.tyq(d['type'])
        name = self.local_name(d)
        init = self.var_init_expr(d)
        lc = self.u.get('local_caps', {}).get('%s.%s' % (self.cur_cname, name)) or self.u.get('local_caps', {}).get(name)
        if lc and t.kind == 'vec' and not t.ref:
            cn2 = '%s_%s' % (t.c, cident(lc))
            mac = 'CC_DEFINE_VEC(%s,%s,%s)' % (cn2, t.elem.c, lc)
            if t.elem.kind == 'scalar': mac += '\nCC_DEFINE_VEC_SCALAR(%s,%s,%s)' % (cn2, t.elem.c, lc)
            self.containers.setdefault(cn2, mac)
            t = Ty('vec', cn2, elem=t.elem)
            self.var_ty[d['id']] = t
            self.rules['local-capacity-override'] += 1
            core = self.skip(init) if init is not None else None
            if core is None or core.get('kind') in ('CXXConstructExpr', 'InitListExpr', 'CXXTemporaryObjectExpr'):
                e = self.construct(t, core.get('inner', []) if core else [], d)
                self.flush(out, ind)
                out.append(ind + '%s %s = %s;' % (t.c, name, e))
                self.vars[d['id']] = ('val', name)
                return
            raise Unsupported('capacity override on %s with a non-constructor initializer' % name)
        if d.get('storageClass') == 'static':
            # static local: treated like a static member
            cn = self.static_var_local(d)
            self.vars[d['id']] = ('val', cn)
            return
        if t.ref:
            if init is None: raise Unsupported('reference without initializer')
            core = self.skip(init)
            const_small = t.const and not self.big(t)
            if const_small or core.get('valueCategory') == 'prvalue':
                # const T& / T&& bound to value: a copy (DESIGN §4.1; referent must not change meanwhile)
                e = self.expr(init, rvalue=True); self.flush(out, ind)
                out.append(ind + '%s %s = %s;' % (t.c, name, e))
                self.vars[d['id']] = ('val', name)
                self.rules['const-ref-local-as-copy'] += 1
                self.note_iter(d, init, name)
                return
            lv = self.expr(core); self.flush(out, ind)
            if self.u.get('ref_locals', 'alias') == 'alias' and not self.has_side_effects(core):
                self.vars[d['id']] = ('alias', '(' + lv + ')' if not re.fullmatch(r'[A-Za-z_][\w\.\->\[\]]*', lv) else lv)
                out.append(ind + '/* reference %s aliases %s */' % (name, lv))
                self.rules['ref-local-as-alias'] += 1
            else:
                pt = t
                if t.kind == 'opaque':
                    # `const auto&` bound to a call whose declared result is a dependent alias (mapped_type ...): the type of
                    # the initialiser expression is the resolved one
                    try:
                        et = self.etype(core)
                        if et.c != t.c: pt = et; self.rules['ref-local-type-from-initialiser'] += 1
                    except Unsupported: pass
                out.append(ind + '%s* %s = %s;' % (pt.c, name, self.addr(lv)))
                self.vars[d['id']] = ('ptr', name)
                self.rules['ref-local-as-pointer'] += 1
            return
        self.vars[d['id']] = ('val', name)
        if init is None:
            if t.kind in ('scalar', 'ptr'):
                out.append(ind + '%s %s;' % (t.c, name))
            else:
                out.append(ind + '%s %s = %s;' % (t.c, name, self.construct(t, [], d)))
            return
        e = self.expr(init, rvalue=True)
        self.flush(out, ind)
        out.append(ind + '%s %s = %s;' % (t.c, name, e))
        self.note_iter(d, init, name)

    def note_iter(self, d, init, name):
        try: t = self.tyq(d['type'])
        except Unsupported: return
        if t.kind in ('iter', 'riter'):
            c = self.find_container_in(init)
            if c is not None: self.iter_of[d['id']] = c
            ct = self.find_container_type_in(init)
            if ct is not None: self.iter_ty[d['id']] = ct

    def find_container_in(self, n):
        c = self.skip(n)
        if c.get('kind') == 'CXXOperatorCallExpr':            # begin(c) + k: the container is in the iterator operand
            for a in c.get('inner', [])[1:]:
                g = self.find_container_in(a)
                if g is not None: return g
        if c.get('kind') in ('CallExpr', 'CXXMemberCallExpr'):
            got = self.iter_container(c)
            if got is not None: return got
            for a in c.get('inner', [])[1:]:
                g = self.find_container_in(a)
                if g is not None: return g
        if c.get('kind') == 'DeclRefExpr':
            return self.iter_of.get(c['referencedDecl']['id'])
        if c.get('kind') in ('CXXConstructExpr',) and c.get('inner'):
            return self.find_container_in(c['inner'][0])
        return None

    def find_container_type_in(self, n):
        c = self.skip(n)
        if c.get('kind') == 'CXXOperatorCallExpr':
            for a in c.get('inner', [])[1:]:
                g = self.find_container_type_in(a)
                if g is not None: return g
        if c.get('kind') in ('CallExpr', 'CXXMemberCallExpr'):
            got = self.container_type(c)
            if got is not None: return got
            for a in c.get('inner', [])[1:]:
                g = self.find_container_type_in(a)
                if g is not None: return g
        if c.get('kind') == 'DeclRefExpr':
            return self.iter_ty.get(c['referencedDecl']['id'])
        if c.get('kind') in ('CXXConstructExpr',) and c.get('inner'):
            return self.find_container_type_in(c['inner'][0])
        return None

    def local_name(self, d):
        nm = d.get('name') or self.tmp('anon')
        if nm in ('this_', 'self_', 'this_v'): nm += 'x'
        if nm in C_RESERVED: nm += '_'
        return nm

    def static_var_local(self, d):
        return self.static_var(d)

    # ------------------------------------------------------------ range-for
    def range_for(self, n, out, ind):
        ks = n['inner']
        init, rangedecl, begin, end, cond, inc, loopvar, body = ks
        if init: raise Unsupported('range-for with init')
        rv = rangedecl['inner'][0]
        rinit = self.var_init_expr(rv)
        rt = self.etype(rinit)
        lv = loopvar['inner'][0]
        try: lt = self.tyq(lv['type'])
        except Unsupported: lt = None
        h = self.u_hook('range_for', n, rt, rinit, lv, lt, body, out, ind)
        if h is not None: return
        core = self.skip(rinit)
        abstract_rec = rt.kind == 'rec' and rt.rec is not None and any(self.qname.get(rt.rec['id'], '').endswith(x) for x in self.u.get('abstract_sequences', []))
        if (rt.kind == 'opaque' or abstract_rec) and lt is not None:
            # abstract sequence: the container is not modelled; iteration = indexed access through two stubs
            out.append(ind + '{'); i2 = ind + '  '
            if self.is_lv(core):
                rng = self.expr(core); self.flush(out, i2)
            else:
                rng = self.tmp('range'); e = self.expr(rinit); self.flush(out, i2)
                out.append(i2 + '%s %s = %s;' % (rt.c, rng, e))
            ix = 'i_L%d_' % (self.loopn + 1); nn = 'n_L%d_' % (self.loopn + 1); name = self.local_name(lv)   # named by loop ordinal: stable under edits elsewhere
            if lv.get('kind') == 'DecompositionDecl':
                if lt.kind != 'pair' and lv.get('type', {}).get('desugaredQualType'):
                    try: lt = self.ty(lv['type']['desugaredQualType'])
                    except Unsupported: pass
                if lt.kind != 'pair':
                    # the element type of an unordered_map<EntityUID, EntityUID> seen through iterator aliases
                    m_ = re.search(r'pair<const ([\w ]+), ([\w ]+)>', str(lv.get('type', {})))
                    if m_:
                        try: lt = self.ty('std::pair<%s, %s>' % (m_.group(1), m_.group(2)))
                        except Unsupported: pass
            # one element type per abstract sequence: a loop that names it through an unresolvable alias (`const auto& pos`
            # typed as a map's node iterator) uses the type an earlier loop over the same sequence resolved
            known = getattr(self, 'iter_elem_ty', None)
            if known is None: known = self.iter_elem_ty = {}
            if lt.kind == 'opaque' and rt.c in known: lt = known[rt.c]; self.rules['range-for:element-type-from-earlier-loop'] += 1
            elif lt.kind != 'opaque': known.setdefault(rt.c, lt)
            for fn, proto in (('%s_iter_size' % rt.c, 'size_t %s_iter_size(const %s* this_);' % (rt.c, rt.c)),
                              ('%s_iter_get' % rt.c, '%s %s_iter_get(const %s* this_, size_t index);' % (lt.c, rt.c, rt.c))):
                self.autostubs.setdefault(fn, proto); self.fninfo.setdefault(fn, {'qname': fn, 'stub': True})
            out.append(i2 + 'size_t %s; size_t %s = %s_iter_size(%s);' % (ix, nn, rt.c, self.addr(rng)))
            out.append(i2 + 'for (%s = 0; %s < %s; ++%s)' % (ix, ix, nn, ix))
            out.append(i2 + self.loop_marker())
            out.append(i2 + '{'); i3 = i2 + '  '
            if lv.get('kind') == 'DecompositionDecl':
                bs = [b for b in lv.get('inner', []) if b.get('kind') == 'BindingDecl']
                if len(bs) != 2 or lt.kind != 'pair': raise Unsupported('structured binding over an abstract sequence of %s at %s' % (lt.c, self.where(n)))
                name = 'el_L%d_' % self.loopn
                out.append(i3 + '%s %s = %s_iter_get(%s, %s);   /* [%s, %s] */' % (lt.c, name, rt.c, self.addr(rng), ix, bs[0].get('name'), bs[1].get('name')))
                for b, fld in zip(bs, ('first', 'second')):
                    self.vars[b['id']] = ('alias', '%s.%s' % (name, fld))
                    for x in b.get('inner', []):
                        rd = x.get('referencedDecl', {})
                        if rd.get('id'): self.vars[rd['id']] = ('alias', '%s.%s' % (name, fld))
                self.rules['range-for:opaque-sequence(structured binding)'] += 1
            elif lt.ref and self.u.get('iter_refs') == 'pointer':
                # `for (const auto& x : set)`: x is a REFERENCE to what the iterator exposes (for lazy sets: an entry of the
                # set's element cache).  Modelled as a pointer the spec hands out (<T>_iter_ref) and may invalidate, so a use
                # of x after the cache may have been cleared is visible to the contracts.
                fn = '%s_iter_ref' % rt.c
                self.autostubs.setdefault(fn, '%s* %s(const %s* this_, size_t index);' % (lt.c, fn, rt.c)); self.fninfo.setdefault(fn, {'qname': fn, 'stub': True})
                out.append(i3 + 'const %s* %s_p_ = %s(%s, %s);' % (lt.c, name, fn, self.addr(rng), ix))
                self.vars[lv['id']] = ('alias', '(*%s_p_)' % name)
                self.rules['range-for:opaque-sequence(reference as pointer)'] += 1
            else:
                out.append(i3 + '%s %s = %s_iter_get(%s, %s);' % (lt.c, name, rt.c, self.addr(rng), ix))
            if lv['id'] not in self.vars or self.vars[lv['id']][0] != 'alias' or lv.get('kind') == 'DecompositionDecl': self.vars[lv['id']] = ('val', name)
            self.rules['range-for:opaque-sequence'] += 1
            self.range_cleanup.append(None)
            self.stmt(body, out, i3)
            self.range_cleanup.pop()
            out.append(i2 + '}'); out.append(ind + '}')
            return
        if rt.kind == 'umap':
            out.append(ind + '{'); i2 = ind + '  '
            if not self.is_lv(core): raise Unsupported('range-for over a temporary map')
            rng = self.expr(core); self.flush(out, i2)
            ix = 'i_L%d_' % (self.loopn + 1)
            ghost_iter = not rt.const and not (self.cur_this_const and ('this_' in rng))
            out.append(i2 + 'size_t %s;' % ix)
            if ghost_iter: out.append(i2 + '%s.iter = %s.iter + 1;' % (rng, rng))
            out.append(i2 + 'for (%s = 0; %s < %s.size; ++%s)' % (ix, ix, rng, ix))
            out.append(i2 + self.loop_marker())
            out.append(i2 + '{'); i3 = i2 + '  '
            if lv.get('kind') == 'DecompositionDecl':
                bs = [b for b in lv.get('inner', []) if b.get('kind') == 'BindingDecl']
                if len(bs) != 2: raise Unsupported('structured binding over map with %d names' % len(bs))
                self.vars[bs[0]['id']] = ('alias', '%s.keys[%s]' % (rng, ix)); self.vars[bs[1]['id']] = ('alias', '%s.vals[%s]' % (rng, ix))
                out.append(i3 + '/* [%s, %s] bind %s.keys[%s], %s.vals[%s] */' % (bs[0].get('name'), bs[1].get('name'), rng, ix, rng, ix))
            else:
                self.vars[lv['id']] = ('mapelem', (rng, ix))
            self.rules['range-for:unordered_map'] += 1
            self.range_cleanup.append(None)
            self.stmt(body, out, i3)
            self.range_cleanup.pop()
            out.append(i2 + '}')
            if ghost_iter: out.append(i2 + '%s.iter = %s.iter - 1;' % (rng, rng))
            out.append(ind + '}')
            return
        if rt.kind not in ('sv', 'vec', 'uset'):
            raise Unsupported('range-for over %s (%s) at %s' % (rt.c, rt.kind, self.where(n)))
        out.append(ind + '{'); i2 = ind + '  '
        if self.is_lv(core):
            if self.has_side_effects(core): raise Unsupported('side effect in range expression')
            rng = self.expr(core); self.flush(out, i2)
        else:
            rng = self.tmp('range'); e = self.expr(rinit); self.flush(out, i2)
            out.append(i2 + '%s %s = %s;' % (rt.c, rng, e))
        ix = 'i_L%d_' % (self.loopn + 1)
        name = self.local_name(lv)
        if rt.kind == 'sv':
            out.append(i2 + 'size_t %s;' % ix)
            out.append(i2 + 'for (%s = 0; %s < %s.len; ++%s)' % (ix, ix, rng, ix))
            out.append(i2 + self.loop_marker())
            out.append(i2 + '{'); i3 = i2 + '  '
            out.append(i3 + 'char %s = %s.ptr[%s];' % (name, rng, ix))
            self.vars[lv['id']] = ('val', name)
            self.rules['range-for:string_view'] += 1
            self.range_cleanup.append(None)
            self.stmt(body, out, i3)
            self.range_cleanup.pop()
            out.append(i2 + '}')
        else:
            el = rt.elem
            out.append(i2 + 'size_t %s;' % ix)
            ghost_iter = not rt.const and not (self.cur_this_const and ('this_' in rng))
            if ghost_iter: out.append(i2 + '%s.iter = %s.iter + 1;' % (rng, rng))
            else: self.rules['range-for:const-range(no ghost flag)'] += 1
            out.append(i2 + 'for (%s = 0; %s < %s.size; ++%s)' % (ix, ix, rng, ix))
            out.append(i2 + self.loop_marker())
            out.append(i2 + '{'); i3 = i2 + '  '
            if lt.ref and not lt.const:
                self.vars[lv['id']] = ('alias', '%s.data[%s]' % (rng, ix))
                out.append(i3 + '/* %s aliases %s.data[%s] */' % (name, rng, ix))
            else:
                out.append(i3 + '%s %s = %s.data[%s];' % (el.c, name, rng, ix))
                self.vars[lv['id']] = ('val', name)
            self.rules['range-for:vector' if rt.kind == 'vec' else 'range-for:unordered_set'] += 1
            self.range_cleanup.append(None)
            self.stmt(body, out, i3)
            self.range_cleanup.pop()
            out.append(i2 + '}')
            if ghost_iter: out.append(i2 + '%s.iter = %s.iter - 1;' % (rng, rng))
            self.note_early_exit(body, n)
        out.append(ind + '}')

    def note_early_exit(self, body, n):
        # a 'return'/'break' inside a vector range-for leaves the ghost iteration flag set;
        # harmless for return-by-value functions, but record it
        def has(n, kinds):
            if not isinstance(n, dict): return False
            if n.get('kind') in kinds: return True
            return any(has(c, kinds) for c in n.get('inner', []))
        if has(body, ('BreakStmt',)):
            self.rules['range-for:break-leaves-iter-flag'] += 1

    # ------------------------------------------------------------ functions
    def emit_function(self, d):
        k = d['kind']
        cn = self.cnames[d['id']]
        owner = self.owner_record(d) if k != 'FunctionDecl' else None
        self.cur_fn = self.qname.get(d['id'], d.get('name'))
        self.cur_cname = cn
        self.vars = {}; self.pre = []; self.loopn = 0; self.iter_of = {}; self.iter_ty = {}; self.inline_checks = 0; self.var_ty = {}
        self.range_cleanup = []
        self.ctor_mode = (k == 'CXXConstructorDecl')
        self.cur_this_const = (k == 'CXXMethodDecl' and self.is_const_method(d))
        params = []
        self.this_mode = None
        is_lambda = owner is not None and not owner.get('name')
        if owner is not None and not self.is_static_method(d) and not self.ctor_mode and not is_lambda:
            rc = self.rec_cname(owner)
            if not self.is_const_method(d):
                params.append('%s* this_' % rc); self.this_mode = 'ptr'
            elif self.this_by_pointer(owner):
                params.append('const %s* this_' % rc); self.this_mode = 'ptr'
            else:
                params.append('%s this_v' % rc); self.this_mode = 'val'
        for i, p in enumerate(self.params_of(d)):
            t = self.tyq(p['type']); st = self.param_storage(p)
            nm = self.local_name(p) if p.get('name') else 'unnamed%d_' % i
            if st == 'ptr':
                params.append('%s%s* %s' % ('const ' if t.const else '', t.c, nm))
                self.vars[p['id']] = ('ptr', nm)
            else:
                params.append('%s %s' % (t.c, nm))
                self.vars[p['id']] = ('val', nm)
        # iterator parameters: associate the container (a sibling parameter or the unique member of that type)
        for p in self.params_of(d):
            try: t = self.tyq(p['type'])
            except Unsupported: continue
            if t.kind in ('iter', 'riter') and t.elem is not None:
                cands = []
                for q in self.params_of(d):
                    try: tq = self.tyq(q['type'])
                    except Unsupported: continue
                    if tq.kind == t.elem.kind and tq.c == t.elem.c and q['id'] in self.vars:
                        mode, nm = self.vars[q['id']]
                        cands.append('(*%s)' % nm if mode == 'ptr' else nm)
                if not cands and owner is not None and self.this_mode:
                    for f in owner.get('inner', []):
                        if f.get('kind') != 'FieldDecl': continue
                        try: tf = self.tyq(f['type'])
                        except Unsupported: continue
                        if tf.kind == t.elem.kind and tf.c == t.elem.c:
                            cands.append(('this_->%s' if self.this_mode == 'ptr' else 'this_v.%s') % f['name'])
                if len(cands) == 1:
                    self.iter_of[p['id']] = cands[0]; self.iter_ty[p['id']] = t.elem
                    self.rules['iterator-parameter-bound-to-container'] += 1
        if self.ctor_mode:
            rc = self.rec_cname(owner)
            self.cur_ret = Ty('rec', rc)
            rtxt = rc
        else:
            self.cur_ret = self.ret_type(d)
            rt = self.cur_ret
            rtxt = rt.c + '*' if (rt.ref and (not rt.const or self.big(rt)) and rt.kind != 'void') else rt.c
        sig = '%s %s(%s)' % (rtxt, cn, ', '.join(params) or 'void')
        out = [sig, '/*@CONTRACT:%s@*/' % cn]
        body = [c for c in d.get('inner', []) if c.get('kind') == 'CompoundStmt']
        if not body: raise Unsupported('no body for ' + cn)
        if self.ctor_mode:
            self.this_mode = 'ptr'
            out.append('{')
            out.append('  %s self_;' % rc)
            out.append('  %s* this_ = &self_;' % rc)
            inits = {}; delegating = None
            for c in d.get('inner', []):
                if c.get('kind') == 'CXXCtorInitializer':
                    if 'delegatingInit' in c: delegating = c['inner'][0]; continue
                    if 'anyInit' not in c: raise Unsupported('base initializer in ' + cn)
                    inits[c['anyInit']['name']] = c['inner'][0]
            if delegating is not None:
                # delegating constructor: the object is what the target constructor builds
                e = self.expr(delegating, rvalue=True); self.flush(out, '  ')
                out.append('  self_ = %s;' % e); self.rules['delegating-constructor'] += 1
            else:
                for f in owner.get('inner', []):
                    if f.get('kind') != 'FieldDecl': continue
                    self.field_init(f, inits.get(f['name']), out, '  ')
            self.stmt(body[0], out, '  ')
            out.append('  return self_;')
            out.append('}')
        else:
            self.stmt(body[0], out, '')
        if any(re.fullmatch(pat, self.cur_fn or '') for pat in self.u.get('cut_recursion', [])):
            # direct recursion is cut at the function's own contract: self-calls go to <name>__rec, a stub the spec
            # gives the contract of the function (the induction hypothesis); the body is checked against the same contract
            rec = cn + '__rec'; n_rec = 0
            for i_ in range(2, len(out)):
                new_line, k_ = re.subn(r'\b%s\(' % re.escape(cn), rec + '(', out[i_]); out[i_] = new_line; n_rec += k_
            if n_rec:
                self.autostubs.setdefault(rec, sig.replace(' %s(' % cn, ' %s(' % rec, 1) + ';')
                self.fninfo.setdefault(rec, {'qname': (self.cur_fn or cn) + ' (recursive call)', 'stub': True})
                self.rules['recursion-cut-at-contract'] += n_rec
        loc = d.get('loc', {})
        self.fninfo[cn] = {'qname': self.cur_fn, 'line': loc.get('line') or loc.get('spellingLoc', {}).get('line'),
                           'file': loc.get('file') or self.last_file(d), 'loops': self.loopn, 'sig': sig}
        self.protos[cn] = sig + ';'
        self.bodies[cn] = '\n'.join(out)
        self.rules['function'] += 1

    def is_static_method(self, d):
        x = d
        while x is not None:
            if x.get('storageClass') == 'static': return True
            x = self.byid.get(x.get('previousDecl')) if 'previousDecl' in x else None
        return False

    def last_file(self, d):
        return None

    def field_init(self, f, init, out, ind):
        t = self.tyq(f['type'])
        if init is not None and init.get('kind') == 'CXXDefaultInitExpr': init = None
        if init is None:
            fi = [c for c in f.get('inner', []) if c.get('kind') not in ('FullComment',)]
            init = fi[0] if fi else None
        if init is None:
            if t.kind in ('scalar', 'ptr'):
                out.append(ind + '/* %s: no initializer (indeterminate in C++ as well) */' % f['name'])
                return
            e = self.construct(t, [], f)
        else:
            e = self.expr(init, rvalue=True)
        self.flush(out, ind)
        out.append(ind + 'this_->%s = %s;' % (f['name'], e))

    def emit_default_ctor(self, cn, r):
        rc = self.rec_cname(r)
        self.cur_fn = rc + '::<default ctor>'; self.cur_cname = cn
        self.vars = {}; self.pre = []; self.loopn = 0; self.iter_of = {}; self.iter_ty = {}; self.inline_checks = 0; self.var_ty = {}; self.this_mode = 'ptr'; self.ctor_mode = True
        self.range_cleanup = []
        out = ['%s %s(void)' % (rc, cn), '/*@CONTRACT:%s@*/' % cn, '{', '  %s self_;' % rc, '  %s* this_ = &self_;' % rc]
        for f in r.get('inner', []):
            if f.get('kind') == 'FieldDecl': self.field_init(f, None, out, '  ')
        out += ['  return self_;', '}']
        self.protos[cn] = '%s %s(void);' % (rc, cn)
        self.bodies[cn] = '\n'.join(out)
        self.fninfo[cn] = {'qname': self.cur_fn, 'loops': 0}

    def struct_def(self, r):
        rc = self.rec_cname(r)
        lines = ['typedef struct %s {' % rc]
        nf = 0
        for b in r.get('bases', []):
            try: bt = self.ty(b['type'].get('desugaredQualType') or b['type']['qualType'])
            except Unsupported:
                self.dropped['base class %s (assumed field-less: CRTP/interface)' % b['type']['qualType']] += 1; continue
            brec = bt.rec if bt.rec is not None else None
            if brec is not None and any(f.get('kind') == 'FieldDecl' for f in brec.get('inner', [])):
                # single inheritance from a plain record: its fields come first (flattened)
                self.rules['base-class-fields-flattened'] += 1
                for f in brec.get('inner', []):
                    if f.get('kind') != 'FieldDecl': continue
                    t = self.tyq(f['type'])
                    if t.ref: lines.append('  %s%s* %s;' % ('const ' if t.const else '', t.c, f['name']))
                    else: lines.append('  %s %s;' % (t.c, f['name']))
                    nf += 1
        for f in r.get('inner', []):
            if f.get('kind') != 'FieldDecl': continue
            t = self.tyq(f['type'])
            if t.ref:
                self.rules['reference-member-as-pointer'] += 1
                lines.append('  %s%s* %s;' % ('const ' if t.const else '', t.c, f['name'])); nf += 1; continue
            lines.append('  %s %s;' % (t.c, f['name'])); nf += 1
        if nf == 0: lines.append('  char empty_;')
        lines.append('} %s;' % rc)
        return '\n'.join(lines)

C_RESERVED = {'register', 'restrict', 'auto', 'typeof', 'inline', 'asm', 'signed', 'unsigned', 'new', 'delete'} - {'new', 'delete'}
