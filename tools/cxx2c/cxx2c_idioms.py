"""Idiom rules: std algorithms with lambdas, etc. Installed as hooks."""
from cxx2c import Unsupported

def lambda_fn(em, n):
    """LambdaExpr -> C function name of its operator() (capture-less only)"""
    n = em.skip(n)
    if n.get('kind') != 'LambdaExpr': raise Unsupported('expected lambda, got %s' % n.get('kind'))
    rec = n['inner'][0]
    caps = [c for c in rec.get('inner', []) if c.get('kind') == 'FieldDecl']
    if caps: raise Unsupported('capturing lambda at ' + em.where(n))
    for c in rec.get('inner', []):
        if c.get('kind') == 'CXXMethodDecl' and c.get('name') == 'operator()':
            em.rules['capture-less-lambda'] += 1
            if c['id'] not in em.cnames:
                em.lambda_n[em.cur_cname] = em.lambda_n.get(em.cur_cname, 0) + 1
                em.cnames[c['id']] = '%s_lambda%d' % (em.cur_cname, em.lambda_n[em.cur_cname])
            return em.want(c), c
    raise Unsupported('lambda without operator()')

def h_accumulate(em, name, r, args, n, rvalue):
    if name != 'accumulate' or len(args) != 4: return None
    first, last, init, lam = args
    cont = em.find_container_in(first)
    if cont is None: raise Unsupported('accumulate over unknown container at ' + em.where(n))
    f = em.expr(first); l = em.expr(last)
    t = em.tyq(init['type'])
    iv = em.expr(init, rvalue=True)
    fn, ld = lambda_fn(em, lam)
    acc = em.tmp('acc'); i = em.tmp('i')
    em.pre.append('%s %s = %s;' % (t.c, acc, iv))
    em.pre.append('size_t %s;' % i)
    em.pre.append('for (%s = %s; %s < %s; ++%s)' % (i, f, i, l, i))
    em.pre.append(em.loop_marker())
    em.pre.append('{ %s = %s(%s, %s.data[%s]); }' % (acc, fn, acc, cont, i))
    em.rules['std::accumulate-as-fold-loop'] += 1
    return acc

def inline_lambda(em, lam, argtexts):
    """lambda whose body is a single `return expr;` -> that expression with parameters bound to the
    given lvalue texts; captured variables are the enclosing function's own variables"""
    n = em.skip(lam)
    op = lambda_call_op(em, lam)       # also the instantiated call operator of a generic lambda
    params = em.params_of(op)
    body = [c for c in op.get('inner', []) if c.get('kind') == 'CompoundStmt'][0]
    stmts = body.get('inner', [])
    if len(stmts) != 1 or stmts[0].get('kind') != 'ReturnStmt' or len(params) != len(argtexts):
        raise Unsupported('lambda is not a single return statement at ' + em.where(n))
    for p, a in zip(params, argtexts): em.vars[p['id']] = ('alias', a)
    em.rules['lambda-inlined(single return)'] += 1
    return em.expr(stmts[0]['inner'][0], rvalue=True)

def h_find_if(em, name, r, args, n, rvalue):
    if name not in ('find_if', 'any_of', 'all_of', 'none_of') or len(args) != 3: return None
    first, last, lam = args
    cont = em.find_container_in(first); ct = em.container_type(first)
    if cont is None or ct is None: raise Unsupported('%s over unknown container at %s' % (name, em.where(n)))
    em.require_full_range(first, last, n)
    if ct.kind == 'opaque' and name != 'find_if':
        # any_of / all_of / none_of over an abstract sequence (the container is not modelled): indexed access through the two
        # stubs <T>_iter_size / <T>_iter_get, as for a range-for over it
        op = lambda_call_op(em, lam); params = em.params_of(op)
        if len(params) != 1: raise Unsupported('%s predicate with %d parameters' % (name, len(params)))
        et = em.tyq(params[0]['type'])
        for fn, proto in (('%s_iter_size' % ct.c, 'size_t %s_iter_size(const %s* this_);' % (ct.c, ct.c)),
                          ('%s_iter_get' % ct.c, '%s %s_iter_get(const %s* this_, size_t index);' % (et.c, ct.c, ct.c))):
            em.autostubs.setdefault(fn, proto); em.fninfo.setdefault(fn, {'qname': fn, 'stub': True})
        res = em.tmp('found'); j = em.tmp('j'); el = em.tmp('el'); cnt = em.tmp('n')
        saved = em.pre; em.pre = []
        cond = inline_lambda(em, lam, [el])
        inner = em.pre; em.pre = saved
        c_ = cond if name != 'all_of' else '!(%s)' % cond
        em.pre.append('cc_bool %s = 0;' % res)
        em.pre.append('{ size_t %s; size_t %s = %s_iter_size(%s); for (%s = 0; %s < %s; ++%s)' % (j, cnt, ct.c, em.addr(cont), j, j, cnt, j))
        em.pre.append(em.loop_marker())
        em.pre.append('  { if (!%s) { %s %s = %s_iter_get(%s, %s); %s if (%s) %s = 1; } } }' % (res, et.c, el, ct.c, em.addr(cont), j, ' '.join(inner), c_, res))
        em.rules['std::%s-as-loop(opaque sequence)' % name] += 1
        return res if name == 'any_of' else '(!%s)' % res
    res = em.tmp('found'); j = em.tmp('j')
    saved = em.pre; em.pre = []
    cond = inline_lambda(em, lam, ['%s.data[%s]' % (cont, j)])
    inner = em.pre; em.pre = saved          # temporaries / obligations of the predicate belong INSIDE the loop (they mention the loop index)
    em.pre.append('size_t %s = %s.size;' % (res, cont))
    em.pre.append('{ size_t %s; for (%s = 0; %s < %s.size; ++%s)' % (j, j, j, cont, j))
    em.pre.append(em.loop_marker())
    c_ = cond if name != 'all_of' else '!(%s)' % cond
    if inner:
        # the predicate is evaluated only until the search is decided (as the algorithm does): side effects included
        em.pre.append('  { if (%s == %s.size) { %s if (%s) %s = %s; } } }' % (res, cont, ' '.join(inner), c_, res, j))
    else:
        em.pre.append('  { if (%s == %s.size && (%s)) %s = %s; } }' % (res, cont, c_, res, j))
    em.rules['std::%s-as-loop' % name] += 1
    if name == 'find_if': return res
    if name == 'any_of': return '(%s != %s.size)' % (res, cont)
    return '(%s == %s.size)' % (res, cont)      # all_of / none_of

def lambda_call_op(em, lam):
    """operator() of a lambda; for a generic lambda (auto parameters) the instantiated specialisation"""
    n = em.skip(lam)
    if n.get('kind') != 'LambdaExpr': raise Unsupported('expected lambda, got %s' % n.get('kind'))
    rec = n['inner'][0]
    cands = []
    for c in rec.get('inner', []):
        if c.get('kind') == 'CXXMethodDecl' and c.get('name') == 'operator()': cands.append(c)
        if c.get('kind') == 'FunctionTemplateDecl' and c.get('name') == 'operator()':
            for cc in c.get('inner', []):
                if cc.get('kind') == 'CXXMethodDecl' and cc.get('name') == 'operator()': cands.append(cc)
    good = [c for c in cands if any(x.get('kind') == 'CompoundStmt' for x in c.get('inner', []))
            and not any('auto' in (pp.get('type', {}).get('qualType') or '') or 'type-parameter' in (pp.get('type', {}).get('qualType') or '') for pp in em.params_of(c))]
    if len(good) != 1: raise Unsupported('lambda with %d usable call operators at %s' % (len(good), em.where(n)))
    return good[0]

def h_for_each(em, name, r, args, n, rvalue):
    """std::for_each(begin(c), end(c), [&](T& x){ body }) -> loop over c with x aliasing c.data[j] (no pointer is taken)"""
    if name != 'for_each' or len(args) != 3: return None
    first, last, lam = args
    cont = em.find_container_in(first); ct = em.container_type(first)
    start = '0'
    if ct is None and em.skip(first).get('kind') == 'CXXOperatorCallExpr':
        # std::for_each(begin(c) + k, end(c), ...): iterators are indices, the loop starts at k
        ct = em.find_container_type_in(first)
        if cont is None or ct is None or em.has_side_effects(first): raise Unsupported('for_each over unknown container at ' + em.where(n))
        lc = em.skip(last)
        try: lname = em.callee_decl(lc)[1].get('name') if lc.get('kind') in ('CallExpr', 'CXXMemberCallExpr') else None
        except Unsupported: lname = None
        if lname not in ('end', 'cend') or em.find_container_in(last) != cont: raise Unsupported('algorithm over a sub-range at ' + em.where(n))
        start = em.expr(first); em.rules['std::for_each-from-offset'] += 1
    else:
        if cont is None or ct is None: raise Unsupported('for_each over unknown container at ' + em.where(n))
        em.require_full_range(first, last, n)
    op = lambda_call_op(em, lam)
    params = em.params_of(op)
    if len(params) != 1: raise Unsupported('for_each lambda with %d parameters' % len(params))
    body = [c for c in op.get('inner', []) if c.get('kind') == 'CompoundStmt'][0]
    j = 'j_L%d_' % (em.loopn + 1)
    saved = em.pre; em.pre = []
    out = []
    out.append('{ size_t %s; for (%s = %s; %s < %s.size; ++%s)' % (j, j, '(size_t)(%s)' % start if start != '0' else '0', j, cont, j))
    out.append(em.loop_marker())
    em.vars[params[0]['id']] = ('alias', '%s.data[%s]' % (cont, j))
    em.stmt(body, out, '  ')
    out.append('}')
    em.pre = saved + out
    em.rules['std::for_each-as-loop(lambda inlined)'] += 1
    return '((void)0)'

def decomposition(em, d, out, ind):
    """structured binding.  Supported: `auto [a, b] = std::minmax_element(begin(c), end(c), cmp)` over a vector — two index
    variables: a = the FIRST smallest element, b = the LAST largest one (the algorithm's contract), cmp inlined."""
    binds = [c for c in d.get('inner', []) if c.get('kind') == 'BindingDecl']
    init = [c for c in d.get('inner', []) if c.get('kind') != 'BindingDecl' and c.get('kind') not in ('FullComment',)]
    call = em.skip(init[0]) if init else None
    name = None
    if call is not None and call.get('kind') == 'CallExpr':
        try: dd, r = em.callee_decl(call); name = r.get('name')
        except Unsupported: name = None
    if name != 'minmax_element' or len(binds) != 2 or len(call['inner']) != 4:
        raise Unsupported('declaration DecompositionDecl at ' + em.where(d))
    first, last, lam = call['inner'][1:4]
    cont = em.find_container_in(first); ct = em.container_type(first)
    if cont is None or ct is None: raise Unsupported('minmax_element over unknown container at ' + em.where(d))
    em.require_full_range(first, last, d)
    mn = em.tmp('min'); mx = em.tmp('max'); j = em.tmp('j')
    saved = em.pre; em.pre = []
    c_min = inline_lambda(em, lam, ['%s.data[%s]' % (cont, j), '%s.data[%s]' % (cont, mn)])      # cmp(x_j, x_min): x_j is smaller
    c_max = inline_lambda(em, lam, ['%s.data[%s]' % (cont, j), '%s.data[%s]' % (cont, mx)])      # !cmp(x_j, x_max): x_j is not smaller: the LAST largest
    inner = em.pre; em.pre = saved
    if inner: raise Unsupported('minmax_element comparator needs statements at ' + em.where(d))
    em.flush(out, ind)
    out.append(ind + 'size_t %s = 0; size_t %s = 0;' % (mn, mx))
    out.append(ind + '{ size_t %s; for (%s = 1; %s < %s.size; ++%s)' % (j, j, j, cont, j))
    out.append(ind + em.loop_marker())
    out.append(ind + '  { if (%s) %s = %s; if (!(%s)) %s = %s; } }' % (c_min, mn, j, c_max, mx, j))
    for b, v in zip(binds, (mn, mx)):
        em.vars[b['id']] = ('val', v); em.iter_of[b['id']] = cont; em.iter_ty[b['id']] = ct
        for x in b.get('inner', []):          # the hidden holder variable of a tuple-like binding
            rd = x.get('referencedDecl', {})
            if rd.get('id'): em.vars[rd['id']] = ('val', v); em.iter_of[rd['id']] = cont; em.iter_ty[rd['id']] = ct
    em.rules['structured-binding(minmax_element)'] += 1

def install(em):
    em.lambda_n = {}
    em.hooks['lib_call'].append(h_accumulate)
    em.hooks['lib_call'].append(h_find_if)
    em.hooks['lib_call'].append(h_for_each)
