"""Idiom rules: std algorithms with lambdas, etc. Installed as hooks."""
from cxx2c import Unsupported

def lambda_fn(em, n):
    """LambdaExpr -> C function name of its operator() (capture-less only)"""
    n = em.skip(n)
    if n.get('kind') != 'LambdaExpr': raise Unsupported('expected lambda, got %s' % n.get('kind'))
    rec = n['inner'][0]
    caps = [c for c in rec.get('inner', []) if c.get('kind') == 'FieldDecl']
    if caps: raise Unsupported('capturing lambda at ' + em.where(n))
    for c in rec.get('inner', []):
        if c.get('kind') == 'CXXMethodDecl' and c.get('name') == 'operator()':
            em.rules['capture-less-lambda'] += 1
            if c['id'] not in em.cnames:
                em.lambda_n[em.cur_cname] = em.lambda_n.get(em.cur_cname, 0) + 1
                em.cnames[c['id']] = '%s_lambda%d' % (em.cur_cname, em.lambda_n[em.cur_cname])
            return em.want(c), c
    raise Unsupported('lambda without operator()')

def h_accumulate(em, name, r, args, n, rvalue):
    if name != 'accumulate' or len(args) != 4: return None
    first, last, init, lam = args
    cont = em.find_container_in(first)
    if cont is None: raise Unsupported('accumulate over unknown container at ' + em.where(n))
    f = em.expr(first); l = em.expr(last)
    t = em.tyq(init['type'])
    iv = em.expr(init, rvalue=True)
    fn, ld = lambda_fn(em, lam)
    acc = em.tmp('acc'); i = em.tmp('i')
    em.pre.append('%s %s = %s;' % (t.c, acc, iv))
    em.pre.append('size_t %s;' % i)
    em.pre.append('for (%s = %s; %s < %s; ++%s)' % (i, f, i, l, i))
    em.pre.append(em.loop_marker())
    em.pre.append('{ %s = %s(%s, %s.data[%s]); }' % (acc, fn, acc, cont, i))
    em.rules['std::accumulate-as-fold-loop'] += 1
    return acc

def install(em):
    em.lambda_n = {}
    em.hooks['lib_call'].append(h_accumulate)
