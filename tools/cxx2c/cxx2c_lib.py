"""Library dispatch of cxx2c: std:: free functions, methods and operators on mapped types,
auto-generated stubs for everything outside the unit's transparent set."""
import re
from cxx2c import Unsupported, Ty, cident, OPNAMES

class LibMixin:
    # ------------------------------------------------------------ std free functions
    def lib_call(self, name, r, args, n, rvalue):
        h = self.u_hook('lib_call', name, r, args, n, rvalue)
        if h is not None: return h
        if name in ('isspace', 'isdigit', 'isalpha', 'isupper', 'islower', 'isalnum') and len(args) == 1:
            self.rules['cctype'] += 1
            return 'cc_%s(%s)' % (name, self.expr(args[0]))
        if name in ('min', 'max') and len(args) == 2:
            self.rules['std::min/max'] += 1
            if self.has_side_effects(args[0]) or self.has_side_effects(args[1]): raise Unsupported('side effect in std::min/max argument')
            return 'CC_%s(%s, %s)' % (name.upper(), self.expr(args[0]), self.expr(args[1]))
        if name in ('size', 'ssize', 'empty', 'begin', 'end', 'cbegin', 'cend', 'data', 'rbegin', 'rend') and len(args) == 1:
            at = self.etype(args[0])
            if at.kind == 'rec' and name in ('empty', 'size', 'begin', 'end'):
                # std::empty(x) / std::begin(x) ... on a record of the repository -> its own member function
                for c in at.rec.get('inner', []):
                    if c.get('kind') == 'CXXMethodDecl' and c.get('name') == name and self.is_const_method(c):
                        if self.is_external(c): return self.autostub_call(c, (args[0], False), [], n)
                        return self.method_call(c, args[0], False, [], n)
            m = {'cbegin': 'begin', 'cend': 'end'}.get(name, name)
            h = self.lib_method(at, m if m != 'ssize' else 'size', args[0], False, [], n, rvalue)
            if h is not None:
                if name == 'ssize': return '((long)%s)' % h
                return h
        if name in ('move', 'forward', 'as_const') and len(args) == 1:
            self.rules['std::move-as-copy'] += 1
            return self.expr(args[0], rvalue=rvalue)
        if name in ('next', 'prev') and len(args) in (1, 2):
            at = self.tyq(args[0]['type'])
            if at.kind == 'iter':
                step = '1' if len(args) == 1 or args[1].get('kind') == 'CXXDefaultArgExpr' else self.expr(args[1])
                return '(%s %s (size_t)%s)' % (self.expr(args[0]), '+' if name == 'next' else '-', step)
        if name == 'advance' and len(args) == 2 and self.tyq(args[0]['type']).kind == 'iter':
            self.rules['std::advance'] += 1
            # iterator = index; moving before begin() or past end() is UB for the real iterator
            it = self.expr(args[0]); nn = self.expr(args[1], rvalue=True)
            cont = self.find_container_in(args[0])
            if cont is not None:
                self.pre.append('__CPROVER_assert((long)%s + (long)(%s) >= 0 && (long)%s + (long)(%s) <= (long)%s.size, "std::advance keeps the iterator inside [begin, end] (else UB)");' % (it, nn, it, nn, cont))
            return '(%s = (size_t)((long)%s + (long)(%s)))' % (it, it, nn)
        if name == 'find' and len(args) == 3:
            cont = self.find_container_in(args[0])
            ct = self.container_type(args[0])
            if cont is None or ct is None: raise Unsupported('std::find over unknown container at ' + self.where(n))
            self.require_full_range(args[0], args[1], n)
            self.rules['std::find'] += 1
            return self.cont_call(ct, 'find', cont, [self.expr(args[2], rvalue=True)])
        if name == 'reverse' and len(args) == 2:
            cont = self.find_container_in(args[0]); ct = self.container_type(args[0])
            if cont is None or ct is None: raise Unsupported('std::reverse over unknown container')
            self.require_full_range(args[0], args[1], n)
            self.rules['std::reverse'] += 1
            return self.cont_call(ct, 'reverse', cont)
        if name == 'abs' and len(args) == 1:
            a = self.expr(args[0]); return '((%s) < 0 ? -(%s) : (%s))' % (a, a, a)
        if name == 'make_pair' and len(args) == 2:
            rt = self.tyq(n['type'])
            if rt.kind == 'pair':
                self.rules['std::make_pair'] += 1
                return '%s_make(%s, %s)' % (rt.c, self.expr(args[0], rvalue=True), self.expr(args[1], rvalue=True))
        if name in ('make_shared', 'make_unique'):
            rt = self.tyq(n['type'])
            if rt.kind == 'ptr' and rt.elem is not None and rt.elem.kind == 'rec' and self.inline_checks == 0:
                # smart pointer mapped to a plain pointer (typemap): allocation from a pool stub + the matching constructor
                t = rt.elem; args2 = [a for a in args if a.get('kind') != 'CXXDefaultArgExpr']
                cands = []
                for c in self.record_ctors(t.rec):
                    ps = self.params_of(c)
                    if len(ps) < len(args2): continue
                    if any(not [x for x in p.get('inner', []) if x.get('kind') not in ('FullComment',)] for p in ps[len(args2):]): continue
                    try:
                        if all(self.tyq(p['type']).c == self.tyq(a['type']).c for p, a in zip(ps, args2)): cands.append(c)
                    except Unsupported: pass
                if len(cands) != 1: raise Unsupported('%s<%s>: %d constructors match at %s' % (name, t.c, len(cands), self.where(n)))
                fn = self.want(cands[0])
                val = '%s(%s)' % (fn, ', '.join(self.call_args(cands[0], args2)))
                an = 'cc_new_' + cident(t.c)
                self.autostubs.setdefault(an, '%s* %s(void);' % (t.c, an)); self.fninfo.setdefault(an, {'qname': an, 'stub': True})
                tn = self.tmp('obj')
                self.pre.append('%s* %s = %s(); *%s = %s;' % (t.c, tn, an, tn, val))
                self.rules['make_shared/make_unique-as-pool-allocation'] += 1
                return tn
        if name in ('make_shared', 'make_unique'):
            rt = self.tyq(n['type'])
            if rt.kind == 'ptr' and rt.elem is not None and rt.elem.kind == 'opaque' and not [a for a in args if a.get('kind') != 'CXXDefaultArgExpr']:
                # default-constructed object of an opaque type behind a smart pointer mapped to a plain pointer: a fresh pool object
                an = 'cc_new_' + cident(rt.elem.c)
                self.autostubs.setdefault(an, '%s* %s(void);' % (rt.elem.c, an)); self.fninfo.setdefault(an, {'qname': an, 'stub': True})
                self.rules['make_unique-of-opaque-as-pool-allocation'] += 1
                return '%s()' % an
            if rt.kind == 'ptr' and rt.elem is not None and rt.elem.kind == 'opaque' and len(args) == 1 and self.same_c(args[0], rt.elem):
                # copy of an opaque object behind a smart pointer mapped to a plain pointer: a pool object initialised by the
                # (stubbed) copy: <T>* cc_copy_<T>(const <T>* src)
                an = 'cc_copy_' + cident(rt.elem.c)
                self.autostubs.setdefault(an, '%s* %s(const %s* src);' % (rt.elem.c, an, rt.elem.c)); self.fninfo.setdefault(an, {'qname': an, 'stub': True})
                self.rules['make_unique-copy-of-opaque-as-pool-allocation'] += 1
                return '%s(%s)' % (an, self.addr(self.expr(args[0])))
        if name in self.u.get('lib_stubs', ['stoi', 'stol', 'to_string', 'get', 'invoke', 'swap', 'holds_alternative']):
            # library function kept as an assumed-contract stub (declared in the unit description)
            atxt = []; ptxt = []; suffix = []
            for i, a in enumerate(args):
                if a.get('kind') == 'CXXDefaultArgExpr': continue
                at = self.tyq(a['type']); suffix.append(cident(at.c))
                if self.big(at) or at.kind == 'opaque':
                    core = self.skip(a)
                    if self.is_lv(core): atxt.append(self.addr(self.expr(core)))
                    else:
                        tn = self.tmp('arg'); self.pre.append('%s %s = %s;' % (at.c, tn, ('{0}' if at.kind == 'opaque' and self.skip(a).get('kind') == 'CXXNullPtrLiteralExpr' else self.expr(a)))); atxt.append('&' + tn)
                    ptxt.append('const %s* a%d' % (at.c, i))
                else:
                    atxt.append(self.expr(a, rvalue=True)); ptxt.append('%s a%d' % (at.c, i))
            rt = self.tyq(n['type'])
            byref = n.get('valueCategory') == 'lvalue' and rt.kind != 'void'
            if name in ('get', 'holds_alternative'):          # template argument = result type: part of the name
                name = '%s_%s' % (name, cident(rt.c))
            cn = 'std_%s%s' % (cident(name), ('__' + '_'.join(suffix)) if suffix else '')
            if byref:
                self.autostubs.setdefault(cn, '%s* %s(%s);' % (rt.c, cn, ', '.join(ptxt) or 'void'))
                self.fninfo.setdefault(cn, {'qname': 'std::' + name, 'stub': True})
                self.rules['library-stub-call'] += 1
                return '(*%s(%s))' % (cn, ', '.join(atxt))
            self.autostubs.setdefault(cn, '%s %s(%s);' % (rt.c, cn, ', '.join(ptxt) or 'void'))
            self.fninfo.setdefault(cn, {'qname': 'std::' + name, 'stub': True})
            self.rules['library-stub-call'] += 1
            return '%s(%s)' % (cn, ', '.join(atxt))
        return None

    # ------------------------------------------------------------ methods on mapped types
    def lib_method(self, t, m, obj, is_arrow, args, n, rvalue):
        h = self.u_hook('lib_method', t, m, obj, is_arrow, args, n, rvalue)
        if h is not None: return h
        k = t.kind
        if k == 'ptr' and m == 'get' and not args:
            return self.expr(obj)           # smart pointer mapped to a plain pointer
        if k == 'sv':
            o = self.obj_text(obj, is_arrow)
            a = [self.expr(x) for x in args if x.get('kind') != 'CXXDefaultArgExpr']
            if m in ('size', 'length', 'empty', 'data', 'front', 'back') and not a:
                return 'sv_%s(%s)' % (m, o)
            if m == 'at' and len(a) == 1: return 'sv_at(%s, %s)' % (o, a[0])
            if m == 'substr':
                if len(a) == 2: return 'sv_substr(%s, %s, %s)' % (o, a[0], a[1])
                if len(a) == 1: return 'sv_substr(%s, %s, SV_NPOS)' % (o, a[0])
            if m in ('find_first_not_of', 'find_last_not_of') and len(a) == 1:
                try: at = self.etype(args[0])
                except Unsupported: at = None
                if at is not None and at.kind == 'sv':
                    self.rules['string_view::%s' % m] += 1
                    return 'sv_%s(%s, %s)' % (m, o, a[0])
            if m in ('begin', 'end', 'cbegin', 'cend'):
                raise Unsupported('string_view iterator outside range-for at ' + self.where(n))
            return None
        if k == 'vec':
            o = self.obj_text(obj, is_arrow)
            if m in ('size', 'empty'):
                return self.cont_call(t, m, o)
            if m in ('push_back',):
                return self.cont_call(t, 'push_back', o, [self.expr(args[0])])
            if m == 'emplace_back':
                if len(args) == 1 and self.same_c(args[0], t.elem):
                    v = self.expr(args[0])
                else:
                    v = self.construct(t.elem, args, n)
                self.rules['emplace_back->push_back(construct)'] += 1
                return self.cont_call(t, 'push_back', o, [v])
            if m in ('pop_back', 'clear'):
                return self.cont_call(t, m, o)
            if m == 'pop' and not args: return self.cont_call(t, 'pop_back', o)                 # std::stack
            if m == 'top' and not args: m = 'back'                                             # std::stack
            if m in ('emplace', 'emplace_back') and not [x for x in args if x.get('kind') != 'CXXDefaultArgExpr'] and t.elem.kind in ('vec', 'rec'):
                self.rules['emplace()->push_back(default)'] += 1
                return self.cont_call(t, 'push_back', o, [self.construct(t.elem, [], n)])      # std::stack / vector ::emplace() of a default-constructed element
            if m in ('push', 'emplace') and len(args) == 1 and self.same_c(args[0], t.elem):  # std::stack
                return self.cont_call(t, 'push_back', o, [self.expr(args[0], rvalue=True)])
            if m == 'resize' and t.elem.kind == 'scalar' and 1 <= len([x for x in args if x.get('kind') != 'CXXDefaultArgExpr']) <= 2:
                a2 = [x for x in args if x.get('kind') != 'CXXDefaultArgExpr']
                self.rules['vector::resize'] += 1
                return self.cont_call(t, 'resize', o, ['(size_t)(%s)' % self.expr(a2[0], rvalue=True), self.expr(a2[1], rvalue=True) if len(a2) == 2 else '((%s)0)' % t.elem.c])
            if m == 'reserve':
                self.dropped['vector::reserve'] += 1
                return '((void)0)'
            if m in ('at', 'back', 'front'):
                if rvalue:
                    return self.cont_call(t, m, o, [self.expr(x) for x in args])
                return self.vec_lvalue(t, o, m, args, n)
            if m == 'begin' or m == 'cbegin': return '((size_t)0)'
            if m == 'end' or m == 'cend': return '%s.size' % o
            if m in ('rbegin', 'crbegin'): return '%s.size' % o      # reverse iterator = index one past the element
            if m in ('rend', 'crend'): return '((size_t)0)'
            if m == 'splice' and len(args) == 3:
                self.rules['list::splice(pos, same, it)'] += 1
                if self.expr(args[1]) != o: raise Unsupported('splice between different lists')
                return self.cont_call(t, 'splice1', o, [self.expr(args[0], rvalue=True), self.expr(args[2], rvalue=True)])
            if m == 'erase' and len(args) == 2:
                self.rules['vector::erase(first,last)'] += 1
                return self.cont_call(t, 'erase_range', o, [self.expr(args[0]), self.expr(args[1])])
            if m in ('emplace', 'insert') and len(args) == 2 and self.same_c(args[1], t.elem):
                if self.has_side_effects(args[0]): raise Unsupported('side effect in insert position')
                self.rules['vector::emplace/insert(pos, value)'] += 1
                pos = self.expr(args[0])
                return '(%s, %s)' % (self.cont_call(t, 'insert_at', o, [pos, self.expr(args[1], rvalue=True)]), pos)
            if m == 'erase' and len(args) == 1:
                self.rules['vector::erase(iterator)'] += 1
                return self.cont_call(t, 'erase_at', o, [self.expr(args[0])])
            if m == 'insert' and len(args) == 3:
                # v.insert(end(v), begin(w), end(w)): append the whole of w
                def nm(x):
                    c = self.skip(x)
                    while c.get('kind') == 'CXXConstructExpr' and len(c.get('inner', [])) == 1: c = self.skip(c['inner'][0])   # iterator -> const_iterator
                    if c.get('kind') in ('CallExpr', 'CXXMemberCallExpr'):
                        try: return self.callee_decl(c)[1].get('name')
                        except Unsupported: return None
                    return None
                src = self.find_container_in(args[1])
                if nm(args[0]) in ('end', 'cend') and self.find_container_in(args[0]) == o and src is not None and src == self.find_container_in(args[2]) \
                   and nm(args[1]) in ('begin', 'cbegin') and nm(args[2]) in ('end', 'cend'):
                    self.rules['vector::insert(end, begin(w), end(w))'] += 1
                    return self.cont_call(t, 'append_all', o, [self.addr(src)])
                raise Unsupported('vector::insert(pos, first, last) other than appending a whole container at %s [%s | %s | %s | %s %s %s]' % (self.where(n), o, self.find_container_in(args[0]), src, nm(args[0]), nm(args[1]), nm(args[2])))
            return None
        if k == 'uset':
            o = self.obj_text(obj, is_arrow)
            if m in ('size', 'empty', 'clear'): return self.cont_call(t, m, o)
            if m in ('contains',): return self.cont_call(t, 'contains', o, [self.expr(args[0], rvalue=True)])
            if m == 'count': return '((size_t)%s)' % self.cont_call(t, 'contains', o, [self.expr(args[0], rvalue=True)])
            if m in ('emplace', 'insert') and len(args) == 1:
                self.rules['unordered_set::emplace/insert (result unused)'] += 1
                return self.cont_call(t, 'insert', o, [self.expr(args[0], rvalue=True)])
            if m == 'erase' and len(args) == 1 and self.tyq(args[0]['type']).kind == 'scalar':
                return self.cont_call(t, 'erase', o, [self.expr(args[0], rvalue=True)])
            if m == 'reserve':
                self.dropped['unordered_set::reserve'] += 1; return '((void)0)'
            if m in ('begin', 'cbegin'): return '((size_t)0)'
            if m in ('end', 'cend'): return '%s.size' % o
            return None
        if k == 'umap':
            o = self.obj_text(obj, is_arrow)
            if m in ('size', 'empty', 'clear'): return self.cont_call(t, m, o)
            if m == 'contains': return self.cont_call(t, 'contains', o, [self.expr(args[0], rvalue=True)])
            if m == 'count': return '((size_t)%s)' % self.cont_call(t, 'contains', o, [self.expr(args[0], rvalue=True)])
            if m == 'at': return self.cont_call(t, 'at', o, [self.expr(args[0], rvalue=True)])
            if m == 'emplace' and len(args) == 2:
                return self.cont_call(t, 'emplace', o, [self.expr(args[0], rvalue=True), self.expr(args[1], rvalue=True)])
            if m == 'insert' and len(args) == 1:
                a0 = self.skip(args[0])
                if a0.get('kind') == 'DeclRefExpr' and self.vars.get(a0['referencedDecl']['id'], (None,))[0] == 'mapelem':
                    rng, ix = self.vars[a0['referencedDecl']['id']][1]
                    self.rules['unordered_map::insert(pair)'] += 1
                    return self.cont_call(t, 'emplace', o, ['%s.keys[%s]' % (rng, ix), '%s.vals[%s]' % (rng, ix)])
            if m == 'erase' and len(args) == 1 and self.tyq(args[0]['type']).kind == 'scalar':
                return self.cont_call(t, 'erase', o, [self.expr(args[0], rvalue=True)])
            if m == 'reserve':
                self.dropped['unordered_map::reserve'] += 1; return '((void)0)'
            return None
        if k == 'arr':
            o = self.obj_text(obj, is_arrow)
            if m == 'size': return '((size_t)%s)' % t.n
            if m == 'at' and len(args) == 1:
                if self.has_side_effects(args[0]): raise Unsupported('side effect in array index')
                i = self.expr(args[0], rvalue=True)
                save = self.inline_checks; self.inline_checks = 1      # always as an inline obligation (value context)
                try: return self.chk('(size_t)%s < (size_t)%s' % (i, t.n), 'array::at throws std::out_of_range', '%s.data[%s]' % (o, i))
                finally: self.inline_checks = save
            return None
        if k == 'pset':
            o = self.obj_text(obj, is_arrow)
            if m in ('contains', 'count') and len(args) == 1:
                pe = self.skip(args[0])
                parts = pe.get('inner', [])
                if pe.get('kind') in ('CXXConstructExpr', 'InitListExpr', 'CXXTemporaryObjectExpr') and len(parts) == 2:
                    return self.cont_call(t, 'contains', o, [self.expr(parts[0], rvalue=True), self.expr(parts[1], rvalue=True)])
            return None
        if k == 'opaque':
            return self.opaque_call(t, cident(m.replace('operator', 'op_')), (obj, is_arrow), args, n)
        if k == 'bitref':
            if m.startswith('operator bool'):
                return self.obj_text(obj, is_arrow)
            return None
        if k == 'opt':
            o = self.obj_text(obj, is_arrow)
            if m == 'has_value': return '%s.has' % o
            if m == 'value':
                if rvalue: return '%s_value(%s)' % (t.c, o)
                return self.chk('%s.has' % o, 'optional::value throws std::bad_optional_access', '%s.val' % o)
            if m.startswith('operator bool') or m == 'operator bool': return '%s.has' % o
            if m == 'reset': return '(%s.has = 0)' % o
            return None
        return None

    def container_type(self, itexpr):
        c = self.skip(itexpr)
        if c.get('kind') == 'MemberExpr' and c.get('name') in self.u.get('iter_fields', {}):
            t = self.tyq(c['type']); return t.elem
        if c.get('kind') == 'CXXConstructExpr' and len(c.get('inner', [])) == 1:
            return self.container_type(c['inner'][0])
        if c.get('kind') in ('CallExpr', 'CXXMemberCallExpr'):
            try: d, r = self.callee_decl(c)
            except Unsupported: return None
            if r.get('name') in ('prev', 'next') and c['kind'] == 'CallExpr':
                return self.container_type(c['inner'][1])
            if r.get('name') in ('begin', 'end', 'cbegin', 'cend', 'rbegin', 'rend', 'crbegin', 'crend'):
                if c['kind'] == 'CallExpr': return self.etype(c['inner'][1])
                me = self.skip(c['inner'][0]); return self.etype(me['inner'][0])
        if c.get('kind') == 'DeclRefExpr':
            return self.iter_ty.get(c['referencedDecl']['id'])
        return None

    def require_full_range(self, first, last, n):
        def nm(x):
            c = self.skip(x)
            if c.get('kind') in ('CallExpr', 'CXXMemberCallExpr'):
                try: return self.callee_decl(c)[1].get('name')
                except Unsupported: return None
            return None
        if nm(first) not in ('begin', 'cbegin') or nm(last) not in ('end', 'cend'):
            raise Unsupported('algorithm over a sub-range at ' + self.where(n))

    def same_c(self, arg, t):
        try: return self.tyq(arg['type']).c == t.c
        except Unsupported: return False

    MUTATORS = {'append_all', 'push_back', 'pop_back', 'clear', 'erase_at', 'erase_range', 'insert_at', 'splice1', 'insert', 'erase', 'emplace', 'reverse', 'resize'}
    def cont_call(self, t, op, o, args=()):
        """call of a container stub on lvalue text `o`.  CBMC 6.11 mis-reads through pointers to an
        element nested in a struct array reached via a pointer parameter (DESIGN §2 item 8), so for
        such lvalues the operation runs on a local copy that is written back (same semantics)."""
        a = ''.join(', ' + x for x in args)
        rvalue_text = re.match(r'^[A-Za-z_]\w*\(', o) is not None      # the object is the result of a call: a temporary
        if '.data[' not in o and not rvalue_text:
            return '%s_%s(%s%s)' % (t.c, op, self.addr(o), a)
        self.rules['temporary-container-by-copy' if rvalue_text else 'nested-element-by-copy'] += 1
        if rvalue_text and op in self.MUTATORS: raise Unsupported('mutating a temporary container')
        tn = self.tmp('c')
        if op in self.MUTATORS:
            return '({ %s %s = %s; %s_%s(&%s%s); %s = %s; (void)0; })' % (t.c, tn, o, t.c, op, tn, a, o, tn)
        return '({ %s %s = %s; %s_%s(&%s%s); })' % (t.c, tn, o, t.c, op, tn, a)

    PURE_NAMES = {'begin', 'end', 'cbegin', 'cend', 'rbegin', 'rend', 'size', 'ssize', 'empty', 'at', 'front', 'back', 'data', 'get', 'value', 'has_value', 'first', 'second'}
    def has_call(self, n):
        """does the expression contain a call that may have side effects (a non-const member function of a repository
        class, or a free function)?  Iterator / container accessors and operators are not counted."""
        k = n.get('kind')
        if k in ('CallExpr', 'CXXMemberCallExpr'):
            try:
                d, r = self.callee_decl(n)
            except Unsupported:
                d, r = None, {}
            nm = (r or {}).get('name', '')
            if nm not in self.PURE_NAMES:
                if d is None: return True
                if d.get('kind') == 'CXXMethodDecl':
                    if not self.is_const_method(d): return True
                else:
                    return True
        return any(isinstance(c, dict) and self.has_call(c) for c in n.get('inner', []))

    def assign_rhs_first(self, l, r, t):
        """E1 = E2 : since C++17 E2 is sequenced before E1.  When E1 contains calls, E2 is evaluated into a temporary first."""
        if self.has_call(l) and self.inline_checks == 0:
            rv = self.expr(r, rvalue=True); tn = self.tmp('rhs')
            self.pre.append('%s %s = %s;' % (t.c, tn, rv))
            self.rules['assignment-rhs-sequenced-first'] += 1
            return '(%s = %s)' % (self.expr(l), tn)
        return '(%s = %s)' % (self.expr(l), self.expr(r, rvalue=True))

    def chk(self, cond, msg, lv):
        """library precondition as an obligation in front of an lvalue: a hoisted statement where
        possible, an inline comma expression inside conditionally evaluated operands"""
        if self.inline_checks > 0:
            self.rules['inline-obligation'] += 1
            return '(*(__CPROVER_assert(%s, "%s"), &%s))' % (cond, msg, lv)
        self.pre.append('__CPROVER_assert(%s, "%s");' % (cond, msg))
        return lv

    def vec_lvalue(self, t, o, m, args, n):
        """element lvalue with the library precondition as a preceding obligation;
        never materialises an element pointer (DESIGN §2 item 8)"""
        if m in ('at', '[]'):
            ix = args[0]
            if self.has_side_effects(ix): raise Unsupported('side effect in vector index at ' + self.where(n))
            i = self.expr(ix)
            if self.has_call(ix):
                # the index is evaluated ONCE (it is used in the obligation and in the element access)
                if self.inline_checks > 0: raise Unsupported('call in a vector index inside a conditionally evaluated operand at ' + self.where(n))
                tn = self.tmp('ix'); self.pre.append('size_t %s = %s;' % (tn, i)); i = tn
                self.rules['index-with-call-hoisted'] += 1
            msg = 'vector::at throws std::out_of_range' if m == 'at' else 'vector::operator[] index < size() (else UB)'
            return self.chk('(size_t)%s < %s.size' % (i, o), msg, '%s.data[%s]' % (o, i))
        if m == 'back':
            return self.chk('%s.size > 0' % o, 'vector::back on empty (UB)', '%s.data[%s.size-1]' % (o, o))
        if m == 'front':
            return self.chk('%s.size > 0' % o, 'vector::front on empty (UB)', '%s.data[0]' % o)
        raise Unsupported('vec_lvalue ' + m)

    # ------------------------------------------------------------ operators on mapped types
    def lib_operator(self, t, op, args, n, rvalue):
        h = self.u_hook('lib_operator', t, op, args, n, rvalue)
        if h is not None: return h
        if t.kind == 'opaque':
            return self.opaque_call(t, OPNAMES.get(op, 'op_' + cident(op)), (args[0], False), args[1:], n)
        if t.kind == 'sv' and op == '[]':
            return 'sv_index(%s, %s)' % (self.expr(args[0]), self.expr(args[1]))
        if t.kind == 'sv' and op in ('==', '!='):
            return '(%ssv_eq(%s, %s))' % ('!' if op == '!=' else '', self.expr(args[0]), self.expr(args[1]))
        if t.kind == 'arr' and op == '[]':
            o = self.expr(args[0]); i = self.expr(args[1], rvalue=True)
            return self.chk('(size_t)%s < (size_t)%s' % (i, t.n), 'array::operator[] index < size (else UB)', '%s.data[%s]' % (o, i))
        if t.kind == 'umap' and op == '[]':
            o = self.expr(args[0])
            if '.data[' in o: raise Unsupported('operator[] on a map nested in a container element')
            ixv = self.tmp('mi')
            self.pre.append('size_t %s = %s_ref_index(%s, %s);' % (ixv, t.c, self.addr(o), self.expr(args[1], rvalue=True)))
            self.rules['unordered_map::operator[]'] += 1
            return '%s.vals[%s]' % (o, ixv)
        if t.kind == 'bitref' and op == '=':
            return '(%s = %s)' % (self.expr(args[0]), self.expr(args[1], rvalue=True))
        if t.kind == 'vec' and op == '[]':
            o = self.expr(args[0])
            if rvalue and t.elem.c != 'cc_bool': return self.cont_call(t, 'get', o, [self.expr(args[1])])
            return self.vec_lvalue(t, o, '[]', args[1:], n)
        if t.kind == 'opt':
            o = self.expr(args[0])
            if op == '*':
                if rvalue: return '%s_deref(%s)' % (t.c, o)
                return self.chk('%s.has' % o, 'optional::operator* on empty (UB)', '%s.val' % o)
            if op == '->':
                return '(&%s)' % self.chk('%s.has' % o, 'optional::operator-> on empty (UB)', '%s.val' % o)
            if op == '=':
                return '(%s = %s)' % (o, self.expr(args[1]))
            if op in ('==', '!=') and len(args) == 2 and self.etype(args[1]).c == t.c:
                # optional == optional: both empty, or both engaged with equal values (std::optional's relational operators)
                b = self.expr(args[1]); x = self.tmp('oa'); y = self.tmp('ob')
                self.pre.append('%s %s = %s; %s %s = %s;' % (t.c, x, o, t.c, y, b))
                if t.elem.kind == 'scalar': eq = '%s.val == %s.val' % (x, y)
                elif t.elem.kind == 'opaque':
                    cn = '%s_op_eq' % t.elem.c
                    self.autostubs.setdefault(cn, 'cc_bool %s(const %s* this_, const %s* a0);' % (cn, t.elem.c, t.elem.c))
                    self.fninfo.setdefault(cn, {'qname': t.elem.c + '::operator==', 'stub': True})
                    eq = '%s(&%s.val, &%s.val)' % (cn, x, y)
                else: raise Unsupported('optional comparison over %s' % t.elem.c)
                self.rules['optional==optional'] += 1
                return '(%s(%s.has == %s.has && (!%s.has || %s)))' % ('!' if op == '!=' else '', x, y, x, eq)
        if t.kind in ('iter', 'riter') and op == '=':
            c0 = self.skip(args[0])
            if c0.get('kind') == 'DeclRefExpr' and c0['referencedDecl']['id'] not in self.iter_of:
                cc = self.find_container_in(args[1]); ct = self.find_container_type_in(args[1])
                if cc is not None: self.iter_of[c0['referencedDecl']['id']] = cc
                if ct is not None: self.iter_ty[c0['referencedDecl']['id']] = ct
            return '(%s = %s)' % (self.expr(args[0]), self.expr(args[1], rvalue=True))
        if t.kind == 'iter':
            o = self.expr(args[0])
            if op == '++' or op == '--':
                post = len(args) == 2
                return '(%s%s)' % (o, op) if post else '(%s%s)' % (op, o)
            if op in ('==', '!=', '<', '-', '+'):
                return '(%s %s %s)' % (o, op, self.expr(args[1]))
            if op in ('*', '->') and t.elem is None:
                cont = self.iter_container(args[0]); ct = self.container_type(args[0])
                if cont is None or ct is None: raise Unsupported('iterator dereference with unknown container at ' + self.where(n))
                return self.chk('%s < %s.size' % (o, cont), 'dereference of end()/invalid iterator (UB)', '%s.data[%s]' % (cont, o))
            if op in ('*', '->'):
                cont = self.iter_container(args[0])
                if cont is None: raise Unsupported('iterator dereference with unknown container at ' + self.where(n))
                ct = t.elem
                e = self.chk('%s < %s.size' % (o, cont), 'dereference of end()/invalid iterator (UB)', '%s.data[%s]' % (cont, o))
                return e if op == '*' else '(&%s)' % e
        if t.kind == 'riter':
            o = self.expr(args[0])
            if op in ('*', '->'):
                cont = self.iter_container(args[0])
                if cont is None: raise Unsupported('reverse iterator dereference with unknown container at ' + self.where(n))
                e = self.chk('%s >= 1 && %s <= %s.size' % (o, o, cont), 'dereference of rend()/invalid reverse iterator (UB)', '%s.data[%s - 1]' % (cont, o))
                return e if op == '*' else '(&%s)' % e
            if op == '++': return '(--%s)' % o if len(args) == 1 else '(%s--)' % o
            if op in ('==', '!='): return '(%s %s %s)' % (o, op, self.expr(args[1]))
        if t.kind in ('vec',) and op == '=':
            return self.assign_rhs_first(args[0], args[1], t)
        return None

    def iter_container(self, itexpr):
        c = self.skip(itexpr)
        if c.get('kind') == 'MemberExpr' and c.get('name') in self.u.get('iter_fields', {}):
            # an iterator stored in a field: its container is reached from the same object (unit description)
            b = self.expr(c['inner'][0]); path = self.u['iter_fields'][c['name']]
            if c.get('isArrow'): base = b[2:-1] if (b.startswith('(&') and b.endswith(')')) else '(*%s)' % b
            else: base = b
            return '(*%s.%s)' % (base, path) if path.endswith('->order') is False else '%s.%s' % (base, path)
        if c.get('kind') == 'CXXConstructExpr' and len(c.get('inner', [])) == 1:
            return self.iter_container(c['inner'][0])     # copy of an iterator
        if c.get('kind') == 'DeclRefExpr':
            return self.iter_of.get(c['referencedDecl']['id'])
        if c.get('kind') in ('CallExpr', 'CXXMemberCallExpr'):
            # begin(X) / X.begin()
            try:
                d, r = self.callee_decl(c)
            except Unsupported:
                return None
            if r.get('name') in ('prev', 'next') and c['kind'] == 'CallExpr':
                return self.iter_container(c['inner'][1])
            if r.get('name') in ('begin', 'end', 'cbegin', 'cend', 'rbegin', 'rend', 'crbegin', 'crend'):
                if c['kind'] == 'CallExpr': return self.expr(c['inner'][1])
                me = self.skip(c['inner'][0]); return self.obj_text(me['inner'][0], me.get('isArrow'))
        return None

    def opaque_call(self, t, name, objinfo, args, n):
        """operation of an opaque (not modelled) library type: body-less stub named after the type,
        the operation and the argument types; specs may attach a contract"""
        atxt = []; ptxt = []; suffix = []
        if objinfo is not None:
            obj, is_arrow = objinfo
            core = self.skip(obj)
            if is_arrow: atxt.append(self.expr(obj))
            elif self.is_lv(core):
                atxt.append(self.addr(self.expr(obj)))
            else:
                tn = self.tmp('obj'); self.pre.append('%s %s = %s;' % (t.c, tn, self.expr(obj))); atxt.append('&' + tn)
            ptxt.append('%s* this_' % t.c)
        for i, a in enumerate(args):
            if a.get('kind') == 'CXXDefaultArgExpr': continue
            at = self.tyq(a['type'])
            suffix.append(cident(at.c))
            if self.big(at) or at.kind == 'opaque':
                core = self.skip(a)
                if self.is_lv(core):
                    atxt.append(self.addr(self.expr(core)))
                else:
                    tn = self.tmp('arg'); self.pre.append('%s %s = %s;' % (at.c, tn, ('{0}' if at.kind == 'opaque' and self.skip(a).get('kind') == 'CXXNullPtrLiteralExpr' else self.expr(a)))); atxt.append('&' + tn)
                ptxt.append('const %s* a%d' % (at.c, i))
            else:
                atxt.append(self.expr(a, rvalue=True)); ptxt.append('%s a%d' % (at.c, i))
        rt = self.tyq(n['type']) if n.get('type') else Ty('void', 'void')
        cn = '%s_%s%s' % (t.c, name, ('__' + '_'.join(suffix)) if suffix else '')
        byref = rt.kind != 'void' and n.get('valueCategory') == 'lvalue'
        rc = (rt.c + '*') if byref else rt.c
        self.autostubs.setdefault(cn, '%s %s(%s);' % (rc, cn, ', '.join(ptxt) or 'void'))
        self.fninfo.setdefault(cn, {'qname': '%s::%s' % (t.c, name), 'stub': True})
        self.rules['opaque-library-call'] += 1
        call = '%s(%s)' % (cn, ', '.join(atxt))
        return '(*%s)' % call if byref else call

    # ------------------------------------------------------------ unit boundary
    def is_external(self, d):
        """a ccl:: function the unit does not translate (body replaced by a stub)"""
        qn = self.qname.get(d['id'], d.get('name'))
        dd_ = self.definition_of(d)
        if dd_ is not None and dd_['id'] in getattr(self, 'root_ids', ()): return False     # an explicit root of the unit is translated, whoever calls it
        for pat in self.u.get('external', []):
            if re.fullmatch(pat, qn): return True
        owner = self.owner_record(d) if d.get('kind') != 'FunctionDecl' else None
        if owner is not None and owner.get('name') and self.record_mode(owner) != 'transparent':
            return True
        if not self.has_body(d):
            return True
        return False

    def has_body(self, d):
        if any(c.get('kind') == 'CompoundStmt' for c in d.get('inner', [])): return True
        # look for the definition among redeclarations
        return self.definition_of(d) is not None

    def definition_of(self, d):
        if any(c.get('kind') == 'CompoundStmt' for c in d.get('inner', [])): return d
        if not hasattr(self, '_defs'):
            self._defs = {}
            for i, x in self.byid.items():
                if x.get('kind') in ('FunctionDecl', 'CXXMethodDecl', 'CXXConstructorDecl', 'CXXConversionDecl') and 'previousDecl' in x \
                   and any(c.get('kind') == 'CompoundStmt' for c in x.get('inner', [])):
                    # walk previousDecl chain
                    p = x
                    while p is not None and 'previousDecl' in p:
                        self._defs[p['previousDecl']] = x
                        p = self.byid.get(p['previousDecl'])
        return self._defs.get(d['id'])

    def autostub_call(self, d, objinfo, args, n):
        """call to a function outside the transparent set: body-less C declaration.
        Specs may give it a contract (used through --replace-call-with-contract) or a body."""
        owner = self.owner_record(d) if d.get('kind') != 'FunctionDecl' else None
        cn = self.fn_cname(d)
        ps = self.params_of(d)
        ptxt = []; atxt = []
        if objinfo is not None and not self.is_static_method(d):
            obj, is_arrow = objinfo
            ot = self.tyq(obj['type'])
            if ot.kind == 'ptr' and is_arrow: ot = ot.elem
            cst = 'const ' if self.is_const_method(d) else ''
            if owner is not None and owner.get('name'):
                # the stub's object type is the DECLARING class (a base of the static type is reached by a cast)
                try:
                    dt = self.ty(self.qname.get(owner['id'], owner['name']))
                    if dt.c != ot.c: ot = dt; need_cast = True
                    else: need_cast = False
                except Unsupported: need_cast = False
            else: need_cast = False
            ptxt.append('%s%s* this_' % (cst, ot.c))
            core = self.skip(obj)
            ot0 = self.tyq(obj['type']); 
            if ot0.kind == 'ptr' and is_arrow: ot0 = ot0.elem
            if is_arrow: atxt.append(self.expr(obj))
            elif self.is_lv(core):
                lvt = self.expr(obj)
                if '.data[' in lvt and self.is_const_method(d) and self.inline_checks == 0:
                    # const call on an element nested in a container: on a copy (CBMC 6.11 pitfall, DESIGN §2 item 8)
                    tn = self.tmp('obj'); self.pre.append('%s %s = %s;' % (ot0.c, tn, lvt)); atxt.append('&' + tn)
                    self.rules['nested-element-const-call-by-copy'] += 1
                else:
                    atxt.append(self.addr(lvt))
            else:
                tn = self.tmp('obj'); self.pre.append('%s %s = %s;' % (ot0.c, tn, self.expr(obj))); atxt.append('&' + tn)
            try:
                oc = self.tyq(core['type'])
                if oc.kind == 'ptr' and is_arrow: oc = oc.elem
                if oc.c != ot.c: need_cast = True
            except Unsupported: pass
            if need_cast: atxt[-1] = '((%s%s*)%s)' % (cst, ot.c, atxt[-1])
        for i, p in enumerate(ps):
            pt = self.tyq(p['type']); st = self.param_storage(p)
            nm = p.get('name') or 'a%d' % i
            ptxt.append(('%s%s* %s' % ('const ' if pt.const else '', pt.c, nm)) if st == 'ptr' else '%s %s' % (pt.c, nm))
        atxt += self.call_args(d, args)
        self.wb = None if not self.wb else self.wb
        rt = self.ret_type(d)
        if rt.kind == 'opaque' and rt.c in self.opaque and n.get('type', {}).get('desugaredQualType'):
            # the declared result type is a dependent alias (e.g. iterator::pointer) the type rules cannot resolve: the call
            # expression itself carries the desugared type
            try:
                rt2 = self.ty(n['type']['desugaredQualType'])
                if rt2.kind != 'opaque' or rt2.c != rt.c: rt = rt2; self.rules['result-type-from-call-expression'] += 1
            except Unsupported: pass
        if rt.ref and (not rt.const or self.big(rt)) and rt.kind != 'void': rc = rt.c + '*'
        else: rc = rt.c
        proto = '%s %s(%s);' % (rc, cn, ', '.join(ptxt) or 'void')
        if cn in self.autostubs and self.autostubs[cn] != proto:
            # instantiations of one template (or overloads reached through different declarations) with different
            # signatures: one stub per signature, named after the parameter types
            sfx = '__' + '_'.join(cident(re.sub(r'\b(const|this_)\b|[\*&]', '', x).split()[0]) for x in ptxt[(1 if objinfo is not None and not self.is_static_method(d) else 0):]) if len(ptxt) > (1 if objinfo is not None and not self.is_static_method(d) else 0) else '__alt'
            cn = cn + sfx
            proto = '%s %s(%s);' % (rc, cn, ', '.join(ptxt) or 'void')
            if cn in self.autostubs and self.autostubs[cn] != proto:
                raise Unsupported('two different signatures for auto-stub %s' % cn)
            self.rules['auto-stub-per-signature'] += 1
        if cn not in self.autostubs:
            self.autostubs[cn] = proto
            self.fninfo.setdefault(cn, {'qname': self.qname.get(d['id']), 'stub': True})
        if rt.kind == 'ptr' and not rt.ref:
            self.nullable_stubs.add(cn)          # a C++ pointer result (not a reference): the default stub may return null
        self.rules['auto-stub-call'] += 1
        if self.wb:
            # reference arguments that are nested container elements were passed as copies: declare / write back here too
            return self.wrap_wb(d, '%s(%s)' % (cn, ', '.join(atxt)))
        return self.wrap_ref_result(d, '%s(%s)' % (cn, ', '.join(atxt)))
