#!/usr/bin/env python3
"""Unit driver of cxx2c: unit description -> C text with splice markers + extraction report."""
import json, os, re, sys, collections
sys.path.insert(0, os.path.dirname(os.path.abspath(__file__)))
from cxx2c import Emitter, Unsupported, Ty, run_clang, cident
from cxx2c_expr import ExprMixin
from cxx2c_lib import LibMixin
from cxx2c_stmt import StmtMixin
import cxx2c_idioms

class CXX2C(Emitter, ExprMixin, LibMixin, StmtMixin):
    def __init__(self, unit, objs):
        self.hooks = collections.defaultdict(list)
        self.enum_defs = collections.OrderedDict(); self.enum_vals = {}
        self.pending_defaults = collections.OrderedDict(); self.lambda_vars = {}; self.root_ids = set(); self.nullable_stubs = set()
        self.used_records = collections.OrderedDict()
        self.cur_fn = None; self.cur_cname = None
        self.vars = {}; self.pre = []; self.iter_of = {}; self.iter_ty = {}; self.range_cleanup = []
        self.this_mode = None; self.ctor_mode = False; self.cur_this_const = False; self.loopn = 0; self.inline_checks = 0; self.var_ty = {}; self.wb = None
        Emitter.__init__(self, unit, objs)
        cxx2c_idioms.install(self)

    def ty(self, q):
        t = Emitter.ty(self, q)
        if t.kind == 'rec' and t.rec is not None:
            self.used_records.setdefault(t.c, t.rec)
        return t

    # ------------------------------------------------------------ roots
    def find_functions(self, qn):
        """all function-like decls with a body whose qualified name matches (suffix match)"""
        out = []
        inst = None
        m_ = re.fullmatch(r'(.*<.*>)::([^:<>]+)', qn)
        if m_:
            # a member of ONE instantiation of a class template: 'Class<Args>::method'
            keys = [k for k in self.records if k == m_.group(1) or k.endswith('::' + m_.group(1))]
            if len(keys) != 1: raise Unsupported('class template instantiation %s not found' % m_.group(1))
            inst = self.records[keys[0]]['id']; qn = re.sub(r'<.*>', '', m_.group(1)) + '::' + m_.group(2)
        for i, n in self.qname.items():
            d = self.byid[i]
            if inst is not None:
                ow_ = self.owner_record(d) if d.get('kind') != 'FunctionDecl' else None
                if ow_ is None or ow_.get('id') != inst: continue
            if d.get('kind') not in ('FunctionDecl', 'CXXMethodDecl', 'CXXConstructorDecl', 'CXXConversionDecl'): continue
            if d.get('isImplicit'): continue
            if d.get('kind') != 'FunctionDecl':
                ow = self.owner_record(d)
                if ow is not None and not ow.get('name'): continue      # lambda call operators are not roots
            if n == qn or n.endswith('::' + qn):
                out.append(d)
        return out

    def run(self):
        for en in self.u.get('enums', []):
            e = self.find_enum(en)
            if e is None: raise Unsupported('enum %s not found' % en)
            self.need_enum(e)
        for spec in self.u['functions']:
            want_all = False
            if spec.endswith('*') and spec.endswith('::*'):
                # every method of a record
                r = self.find_record(spec[:-3])
                if r is None: raise Unsupported('record %s not found' % spec)
                ds = [c for c in r.get('inner', []) if c.get('kind') in ('CXXMethodDecl', 'CXXConstructorDecl') and not c.get('isImplicit')
                      and not c.get('explicitlyDefaulted') and not c.get('explicitlyDeleted')]
                ds = [d for d in ds if self.has_body(d)]
            else:
                ds = [d for d in self.find_functions(spec)]
                defs = []
                for d in ds:
                    dd = self.definition_of(d)
                    if dd is not None and dd['id'] not in [x['id'] for x in defs]: defs.append(dd)
                ds = defs
                if not ds: raise Unsupported('root function %s not found (or has no body)' % spec)
            for d in ds:
                # name through the first declaration so that overload ordinals follow declaration order
                first = d
                while 'previousDecl' in first and first['previousDecl'] in self.byid: first = self.byid[first['previousDecl']]
                cn = self.fn_cname(first); self.cnames[d['id']] = cn
                self.root_ids.add(d['id'])
                self.want(d)
        # every record the unit description declares transparent gets its C type, used or not: stubs in the spec files
        # may mention it even when an edit of the repository stops using it
        for k, mode in self.u.get('records', {}).items():
            if mode != 'transparent': continue
            try:
                r = self.find_record(k)
                if r is not None: self.ty(self.qname.get(r['id'], k))
            except Unsupported: pass
        for q in self.u.get('force_types', []):
            self.ty(q)                      # types the spec files use in ghost state, whether or not the extracted code does
        done = set()
        while self.wanted or self.pending_defaults:
            while self.wanted:
                d = self.wanted.pop(0)
                if d['id'] in done: continue
                done.add(d['id'])
                self.emit_function(d)
            while self.pending_defaults:
                cn, r = self.pending_defaults.popitem(last=False)
                if cn not in self.bodies: self.emit_default_ctor(cn, r)
        return self.assemble()

    # ------------------------------------------------------------ output
    def type_items(self):
        """structs and container instantiations in dependency order"""
        items = collections.OrderedDict()
        changed = True
        while changed:
            changed = False
            for cn, r in list(self.used_records.items()):
                if ('S', cn) not in items:
                    items[('S', cn)] = self.struct_def(r); changed = True
            for cn, mac in list(self.containers.items()):
                if ('C', cn) not in items:
                    items[('C', cn)] = mac + '\n'; changed = True
        names = {k[1] for k in items}
        deps = {}
        for k, text in items.items():
            body = text.split('{', 1)[1] if (k[0] == 'S' or text.startswith('typedef')) else text.split('(', 1)[1]
            toks = set(re.findall(r'[A-Za-z_]\w*', body))
            byval = set(re.findall(r'[A-Za-z_]\w*(?!\w)(?!\s*\*)', body))     # a RECORD used only through a pointer needs no definition (forward typedefs are emitted)
            deps[k] = {kk for kk in items if kk != k and (kk[1] in byval or (kk[0] != 'S' and kk[1] in toks))}
        order = []; seen = set()
        def visit(k, stack=()):
            if k in seen: return
            if k in stack: raise Unsupported('recursive type %s' % k[1])
            for dd in deps[k]: visit(dd, stack + (k,))
            seen.add(k); order.append(k)
        for k in items: visit(k)
        return [items[k] for k in order]

    def assemble(self):
        L = ['/* generated by cxx2c from %s — do not edit */' % self.u['name'], '/*@PRELUDE0@*/', '#include "cc_rt.h"']
        types = self.type_items()
        for e in self.enum_defs.values(): L += e
        for oc, q in sorted(self.opaque.items()):
            L.append('typedef struct { int id; } %s; /* opaque: %s */' % (oc, q))
        for r_cn in sorted({t for t in self.opaque_records(types)}):
            L.append('typedef struct { int id; } %s; /* opaque record */' % r_cn)
        fwd = sorted({cn for cn in self.used_records})
        for cn in fwd: L.append('typedef struct %s %s;' % (cn, cn))
        L += types
        for s in self.statics.values():
            if s: L.append(s)
        # C type definitions the spec files use in stubs of functions the extracted code may stop calling: emitted only when
        # the extraction did not produce them itself (unit key ensure_types: {name: definition line})
        have = '\n'.join(L)
        for nm, line in self.u.get('ensure_types', {}).items():
            if not re.search(r'\b%s\b' % re.escape(nm), have): L.append(line + '   /* ensure_types */')
        L.append('/*@PRELUDE@*/')
        for cn, p in self.autostubs.items():
            # auto-stub = assumed contract "returns an arbitrary value, no effect on verified state".
            # Specs override by defining HAVE_<name> (own body in the prelude) or by a @contract used
            # through --replace-call-with-contract (the default body is then ignored).
            L.append('#ifndef HAVE_%s' % cn)
            L.append(p[:-1] + '\n/*@CONTRACT:%s@*/' % cn)
            L.append(self.default_stub_body(p, cn in self.nullable_stubs))
            L.append('#else')
            L.append(p)
            L.append('#endif')
        for p in self.protos.values(): L.append(p)
        for b in self.bodies.values():
            L.append(''); L.append(b)
        L.append('/*@HARNESS@*/')
        return '\n'.join(L) + '\n'

    def default_stub_body(self, proto, nullable=False):
        m = re.match(r'(.*?)\s*(\w+)\((.*)\);$', proto, re.S)
        rt = m.group(1).strip(); params = m.group(3)
        if m.group(2).startswith('cc_new_'):
            base = rt[:-1].strip()
            return '{ static %s pool_[CC_POOL]; static size_t n_; __CPROVER_assert(n_ < CC_POOL, "allocation pool of the check exceeded"); n_ = n_ + 1; return &pool_[n_ - 1]; }   /* distinct fresh objects */' % base
        if rt == 'void': return '{ }'
        if rt.endswith('*'):
            base = rt[:-1].replace('const ', '').strip()
            pm = re.match(r'(const )?%s\* this_' % re.escape(base), params)
            if pm and not pm.group(1):
                return '{ return this_; }   /* reference result: the object itself */'
            if nullable:
                return '{ static %s ghost_result_; %s fresh_; cc_bool null_; ghost_result_ = fresh_; return null_ ? 0 : &ghost_result_; }   /* pointer result: null or some object */' % (base, base)
            return '{ static %s ghost_result_; %s fresh_; ghost_result_ = fresh_; return &ghost_result_; }' % (base, base)
        return '{ %s nondet_result_; return nondet_result_; }' % rt

    def opaque_records(self, types=()):
        out = set()
        for line in list(self.autostubs.values()) + list(self.protos.values()) + list(self.bodies.values()) + list(types) + [x for x in self.statics.values() if x]:
            for m in re.findall(r'\bopq_\w+', line): out.add(m)
        return out - set(self.opaque.keys()) - set(self.autostubs.keys()) - set(self.bodies.keys())

    def report(self):
        return {
            'unit': self.u['name'],
            'functions': self.fninfo,
            'rules_fired': dict(self.rules),
            'dropped': dict(self.dropped),
            'auto_stubs': sorted(self.autostubs.keys()),
        }

def extract(unit, workdir):
    incs = unit['includes']
    objs = run_clang(unit['tu'], incs, workdir, unit['name'], unit.get('filter', 'ccl::'), unit.get('clang_args', []))
    em = CXX2C(unit, objs)
    text = em.run()
    rep = em.report()
    for r in unit.get('must_fire', []):
        if not rep['rules_fired'].get(r):
            raise Unsupported('must-fire rule %r did not fire in unit %s' % (r, unit['name']))
    return text, rep

if __name__ == '__main__':
    unit = json.load(open(sys.argv[1]))
    wd = sys.argv[2] if len(sys.argv) > 2 else '/tmp'
    try:
        text, rep = extract(unit, wd)
    except Unsupported as e:
        print('EXTRACTION-ABORTED: %s' % e, file=sys.stderr); sys.exit(2)
    sys.stdout.write(text)
    json.dump(rep, open(os.path.join(wd, unit['name'] + '.report.json'), 'w'), indent=1)
