#!/bin/bash
# at_commit.sh <ID> <commit> [check args...] : run a check against a scratch export of /repo at <commit>
set -e
ID=$1; C=$2; shift 2
D=$(mktemp -d /tmp/crepo-XXXXXX)
trap 'rm -rf $D' EXIT
git -C /repo archive $C ccl | tar -x -C $D
VERIF_REPO=$D /verif/bin/check $ID --no-evidence "$@" 2>&1 | grep -v " PASS "
echo "exit=${PIPESTATUS[0]}"
