#!/bin/bash
# with_patch.sh <ID> <patch.diff> [check args...] : run a check against a scratch export of /repo with the patch applied.
# The export is /repo HEAD, or the commit named in a file `base` next to the patch (seeded changes made before a later fix: commit
# touched the same lines).
set -e
ID=$1; P=$(realpath $2); shift 2
D=$(mktemp -d /tmp/prepo-XXXXXX)
trap 'rm -rf $D' EXIT
C=HEAD; [ -f "$(dirname $P)/base" ] && C=$(cat "$(dirname $P)/base")
git -C /repo archive $C ccl | tar -x -C $D
(cd $D && patch -p1 -s < $P)
VERIF_REPO=$D /verif/bin/check $ID --no-evidence "$@" 2>&1 | grep -v " PASS "
echo "exit=${PIPESTATUS[0]}"
