#!/bin/bash
# with_patch.sh <ID> <patch.diff> [check args...] : run a check against a scratch export of /repo HEAD with the patch applied
set -e
ID=$1; P=$(realpath $2); shift 2
D=$(mktemp -d /tmp/prepo-XXXXXX)
trap 'rm -rf $D' EXIT
git -C /repo archive HEAD ccl | tar -x -C $D
(cd $D && patch -p1 -s < $P)
VERIF_REPO=$D /verif/bin/check $ID --no-evidence "$@" 2>&1 | grep -v " PASS "
echo "exit=${PIPESTATUS[0]}"
