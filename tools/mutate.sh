#!/bin/bash
# mutate.sh <ID> <relative file> <sed expression> [check args...] : run a check against a mutated scratch copy of /repo/ccl
set -e
ID=$1; F=$2; E=$3; shift 3
D=$(mktemp -d /tmp/mrepo-XXXXXX)
trap 'rm -rf $D' EXIT
mkdir -p $D/ccl; rsync -a --exclude '_build' --exclude 'build' /repo/ccl/ $D/ccl/
sed -i "$E" $D/$F
if diff -q /repo/$F $D/$F >/dev/null; then echo "MUTATION DID NOT APPLY"; exit 3; fi
diff /repo/$F $D/$F | head -6
VERIF_REPO=$D /verif/bin/check $ID --no-evidence "$@" 2>&1 | grep -v " PASS " 
echo "exit=${PIPESTATUS[0]}"
