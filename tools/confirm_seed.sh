#!/bin/bash
# confirm_seed.sh <ID> : confirm a sub-agent's seeded change myself.
#   demo on /repo (must exit 0), demo on the patched tree (must exit != 0), full upstream test suite with the patch
#   in the /tmp/fullbuild worktree (incremental build), then revert.  Prints a summary.
ID=$1; S=/tmp/seed-$ID; FB=/tmp/fullbuild
INC="-I ccl/cclCommons/include -I ccl/cclGraph/include -I ccl/cclLang/include -I ccl/rslang/include -I ccl/rslang/header -I ccl/rslang/import/include -I ccl/rslang/import/reflex/include -I ccl/core/include -I ccl/core/header"
SRCS_RS="ccl/rslang/unity/*.cpp"
SRCS_ALL="ccl/core/unity/CCL.cpp ccl/cclGraph/src/CGraph.cpp ccl/rslang/unity/*.cpp ccl/cclLang/unity/cclLang.cpp"
mode=${2:-all}
[ "$mode" = rs ] && SRCS=$SRCS_RS || SRCS=$SRCS_ALL
build() { (cd $1 && g++ -std=c++20 -O1 -w $INC -I ccl/core/import/include $S/demo.cpp $SRCS -o $2) 2>&1 | tail -5; }
build /repo /tmp/demo-$ID-orig & build $S /tmp/demo-$ID-seed & wait
/tmp/demo-$ID-orig > /tmp/demo-$ID-orig.out 2>&1; echo "demo on /repo: exit=$?"; tail -2 /tmp/demo-$ID-orig.out
/tmp/demo-$ID-seed > /tmp/demo-$ID-seed.out 2>&1; echo "demo on seeded: exit=$?"; tail -4 /tmp/demo-$ID-seed.out
rm -f /tmp/demo-$ID-orig /tmp/demo-$ID-seed
(cd $FB && git checkout -q -- . && git apply $S/patch.diff && ninja -C _build 2>&1 | tail -1 && ctest --test-dir _build -j16 2>&1 | tail -3; git checkout -q -- .)
