// Native replay for C13 (maximal part).  The counterexample is a ghost schema: list order, "has a definition", direct
// dependencies, arguments.  The replay builds the real RSForm: one base set X1 plus terms in list order whose
// definition is the union of their dependencies (a defined constituent without dependencies is "Z"), runs OpMaxPart::Execute and
// compares the selected constituents (identified by a marker in their convention) with the least fixpoint.
#include "ccl/semantic/RSForm.h"
#include "ccl/ops/RSOperations.h"
#include "replay_util.hpp"
#include <set>
using namespace ccl; using namespace ccl::semantic;
int main(int argc, char** argv) {
  if (argc < 2) return 2;
  Inputs in(argc, argv);
  const int N = 4;
  const int n = (int)in.I("in_n"); if (n < 0 || n > N) return 2;
  long long uidOf[N]; bool hasdef[N]; std::set<int> inp[N]; std::set<int> args;
  auto idx = [&](long long uid) { for (int i = 0; i < n; ++i) if (uidOf[i] == uid) return i; return -1; };
  for (int i = 0; i < N; ++i) { uidOf[i] = in.I("in_list[" + std::to_string(i) + "]"); hasdef[i] = in.I("in_hasdef[" + std::to_string(i) + "]") != 0; }
  for (int i = 0; i < n; ++i) { const long long sz = in.I("in_inp[" + std::to_string(i) + "].size");
    for (int a = 0; a < sz && a < N; ++a) { int j = idx(in.I("in_inp[" + std::to_string(i) + "].data[" + std::to_string(a) + "]")); if (j < 0) return 2; inp[i].insert(j); } }
  { const long long sz = in.I("in_op.arguments.size");
    for (int a = 0; a < sz && a < N; ++a) { int j = idx(in.I("in_op.arguments.data[" + std::to_string(a) + "]")); if (j < 0) return 2; args.insert(j); } }
  if (args.empty()) { std::printf("empty arguments: OpMaxPart::Execute refuses, nothing to replay\n"); return 2; }
  for (int i = 0; i < n; ++i) if (!hasdef[i] && !inp[i].empty()) { std::printf("an undefined constituent with dependencies cannot be realised\n"); return 2; }
  RSForm s{}; EntityUID uid[N];
  for (int i = 0; i < n; ++i) uid[i] = s.Emplace(CstType::term, "");             // aliases D1..Dn in list order
  for (int i = 0; i < n; ++i) { std::string d; for (int j : inp[i]) { if (!d.empty()) d += "\xE2\x88\xAA"; d += s.GetRS(uid[j]).alias; }
    if (hasdef[i]) s.SetExpressionFor(uid[i], d.empty() ? std::string("Z") : d);   /* "Z": a definition that mentions no constituent */
    s.SetConventionFor(uid[i], "marker" + std::to_string(i)); }
  // oracle: least set containing the arguments and every defined constituent whose dependencies are inside
  std::set<int> R = args; bool ch = true;
  while (ch) { ch = false; for (int i = 0; i < n; ++i) if (!R.count(i) && hasdef[i]) { bool all = true; for (int j : inp[i]) if (!R.count(j)) all = false; if (all) { R.insert(i); ch = true; } } }
  SetOfEntities a; for (int i : args) a.insert(uid[i]);
  ops::OpMaxPart op{ s, a };
  const auto res = op.Execute();
  if (res == nullptr) { std::printf("OpMaxPart refuses these arguments (not closed under dependencies): nothing to compare\n"); return 2; }
  std::set<int> got;
  for (const auto cst : res->Core()) for (int i = 0; i < n; ++i) if (res->GetRS(cst).convention == "marker" + std::to_string(i)) got.insert(i);
  for (int i = 0; i < n; ++i) EXPECT(got.count(i) == R.count(i), "constituent #%d (%s) is %s the result of OpMaxPart but %s the maximal part", i, s.GetRS(uid[i]).alias.c_str(), got.count(i) ? "in" : "not in", R.count(i) ? "in" : "not in");
  return verdict();
}
