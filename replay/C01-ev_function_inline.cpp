// Native replay for C02 / nf_function, nd_dispatch and C01 / ev_function_inline (scenario replay): term-functions whose body's TOP
// node is a tuple binder, an enumerated declaration or another call; the value of F[args] must be the value of the body with
// the arguments substituted, which is worked out by hand below.
#include "ccl/rslang/Interpreter.h"
#include "ccl/rslang/Literals.h"

#include <iostream>
#include <map>
#include <string>
#include "replay_util.hpp"

using ccl::object::Factory;
using ccl::object::StructuredData;
using ccl::rslang::operator""_t;
namespace rsl = ccl::rslang;

struct Env final : rsl::TypeContext {
  std::map<std::string, rsl::ExpressionType> types{};
  std::map<std::string, rsl::FunctionArguments> args{};
  std::map<std::string, rsl::SyntaxTree> asts{};
  std::map<std::string, StructuredData> values{};
  rsl::Parser parser{};

  const rsl::ExpressionType* TypeFor(const std::string& name) const final {
    const auto it = types.find(name);
    return it == types.end() ? nullptr : &it->second;
  }
  const rsl::FunctionArguments* FunctionArgsFor(const std::string& name) const final {
    const auto it = args.find(name);
    return it == args.end() ? nullptr : &it->second;
  }
  std::optional<rsl::TypeTraits> TraitsFor(const rsl::Typification& type) const final {
    if (type == rsl::Typification::Integer()) {
      return rsl::TraitsIntegral;
    }
    return rsl::TraitsNominal;
  }

  bool AddFunction(const std::string& name, const std::string& definition,
                   rsl::ExpressionType result, rsl::FunctionArguments arguments) {
    if (!parser.Parse(definition, rsl::Syntax::ASCII)) {
      std::cout << "SETUP: cannot parse " << definition << "\n";
      return false;
    }
    asts.emplace(name, parser.AST());
    types.emplace(name, std::move(result));
    args.emplace(name, std::move(arguments));
    return true;
  }

  rsl::SyntaxTreeContext ASTs() const {
    return [this](const std::string& name) -> const rsl::SyntaxTree* {
      const auto it = asts.find(name);
      return it == asts.end() ? nullptr : &it->second;
    };
  }
  rsl::DataContext Data() const {
    return [this](const std::string& name) -> std::optional<StructuredData> {
      const auto it = values.find(name);
      if (it == values.end()) {
        return std::nullopt;
      }
      return it->second;
    };
  }
};

static std::string Show(const std::optional<rsl::ExpressionValue>& value) {
  if (!value.has_value()) {
    return "<evaluation failed>";
  } else if (std::holds_alternative<bool>(*value)) {
    return std::get<bool>(*value) ? "TRUE" : "FALSE";
  } else {
    return std::get<StructuredData>(*value).ToString();
  }
}

static int failures = 0;

static void Check(rsl::Interpreter& interpreter, const std::string& call,
                  const std::string& substituted, const rsl::ExpressionValue& expected) {
  const auto viaCall = interpreter.Evaluate(call, rsl::Syntax::ASCII);
  std::string callErrors{};
  for (const auto& err : interpreter.Errors().All()) {
    callErrors += " error 0x" + [&] { char buf[16]; std::snprintf(buf, sizeof buf, "%X", err.eid); return std::string{ buf }; }();
  }
  const auto viaSubstitution = interpreter.Evaluate(substituted, rsl::Syntax::ASCII);
  const std::optional<rsl::ExpressionValue> paper{ expected };
  const bool ok = viaCall.has_value() && viaSubstitution.has_value()
    && viaCall == viaSubstitution && viaCall == paper;
  if (!ok) {
    ++failures;
    std::cout << "VIOLATION: " << call << "\n"
              << "    value of the call          : " << Show(viaCall) << callErrors << "\n"
              << "    value after substitution   : " << Show(viaSubstitution) << "   [" << substituted << "]\n"
              << "    set-theoretic value        : " << Show(paper) << "\n";
  } else {
    std::cout << "ok: " << call << " = " << Show(viaCall) << "\n";
  }
}

int main(int argc, char** argv) {
  if (argc < 2) return 2;
  Env env{};
  const auto x1 = "X1"_t;
  const auto bx1 = "B(X1)"_t;
  const auto pairs = "B(X1*X1)"_t;

  env.types.emplace("X1", bx1);
  env.values.emplace("X1", Factory::SetV({ 1, 2, 3 }));
  env.types.emplace("S1", pairs);
  env.values.emplace("S1", Factory::Set({
    Factory::TupleV({ 1, 1 }), Factory::TupleV({ 1, 2 }), Factory::TupleV({ 2, 2 }), Factory::TupleV({ 3, 1 })
  }));
  env.types.emplace("S3", pairs);
  env.values.emplace("S3", Factory::Set({ Factory::TupleV({ 2, 2 }) }));
  env.types.emplace("S2", bx1);
  env.values.emplace("S2", Factory::SetV({ 2 }));

  bool setup = true;
  // body = set-builder with a tuple-pattern binder
  setup &= env.AddFunction("F1", R"(F1 \defexpr [a \in B(X1*X1)] D{(x,y) \in a | x \eq y})",
                           pairs, { rsl::TypedID{ "a", pairs } });
  // body = imperative constructor with a tuple-pattern binder
  setup &= env.AddFunction("F2", R"(F2 \defexpr [a \in B(X1*X1)] I{y | (x,y) \from a})",
                           bx1, { rsl::TypedID{ "a", pairs } });
  // body = quantifier with an enumerated declaration
  setup &= env.AddFunction("P3", R"(P3 \defexpr [a \in B(X1)] \A x,y \in a x \eq y)",
                           rsl::LogicT{}, { rsl::TypedID{ "a", bx1 } });
  // body = quantifier with a tuple-pattern binder
  setup &= env.AddFunction("P4", R"(P4 \defexpr [a \in B(X1*X1)] \E (x,y) \in a x \noteq y)",
                           rsl::LogicT{}, { rsl::TypedID{ "a", pairs } });
  // body = call of another term-function
  setup &= env.AddFunction("F5", R"(F5 \defexpr [b \in B(X1)] {b})",
                           "BB(X1)"_t, { rsl::TypedID{ "b", bx1 } });
  setup &= env.AddFunction("F6", R"(F6 \defexpr [a \in B(X1)] F5[a \setminus S2])",
                           "BB(X1)"_t, { rsl::TypedID{ "a", bx1 } });
  // control: binder is not the top node of the body
  setup &= env.AddFunction("F7", R"(F7 \defexpr [a \in B(X1*X1)] a \setminus D{(x,y) \in a | x \eq y})",
                           pairs, { rsl::TypedID{ "a", pairs } });
  if (!setup) {
    return 2;
  }

  rsl::Interpreter interpreter{ env, env.ASTs(), env.Data() };

  const auto diagonal = Factory::Set({ Factory::TupleV({ 1, 1 }), Factory::TupleV({ 2, 2 }) });
  const auto offDiagonal = Factory::Set({ Factory::TupleV({ 1, 2 }), Factory::TupleV({ 3, 1 }) });

  Check(interpreter, R"(F1[S1])", R"(D{(x,y) \in S1 | x \eq y})", diagonal);
  Check(interpreter, R"(F2[S1])", R"(I{y | (x,y) \from S1})", Factory::SetV({ 1, 2 }));
  Check(interpreter, R"(P3[S2])", R"(\A x,y \in S2 x \eq y)", true);
  Check(interpreter, R"(P3[X1])", R"(\A x,y \in X1 x \eq y)", false);
  Check(interpreter, R"(P4[S1])", R"(\E (x,y) \in S1 x \noteq y)", true);
  Check(interpreter, R"(P4[S3])", R"(\E (x,y) \in S3 x \noteq y)", false);
  Check(interpreter, R"(P4[F1[S1]])", R"(\E (x,y) \in D{(x,y) \in S1 | x \eq y} x \noteq y)", false);
  Check(interpreter, R"(F6[X1])", R"({X1 \setminus S2})", Factory::Singleton(Factory::SetV({ 1, 3 })));
  Check(interpreter, R"(F7[S1])", R"(S1 \setminus D{(x,y) \in S1 | x \eq y})", offDiagonal);
  Check(interpreter, R"(card(F1[S1]) \eq 2)", R"(card(D{(x,y) \in S1 | x \eq y}) \eq 2)", true);

  EXPECT(failures == 0, "%d call(s) of term-functions do not evaluate to the value of their substituted bodies (see the VIOLATION lines)", failures);
  return verdict();
}
