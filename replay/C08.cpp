// Native replay for C08 (renaming rewrites exactly the mentions).  The contract obligations are stated over a ghost
// token source; the replay realises the counterexample on the real lexer: the text is blanks with one global
// identifier ("X" + digits, exactly f-s bytes) at each token range, the translator answers per token as the
// counterexample says (a new name of the given length / no answer / the same name), the filter accepts global
// identifiers.  The result of the real TranslateRS is compared with the splice computed from the ranges.
#include "ccl/rslang/RSExpr.h"
#include "replay_util.hpp"
using namespace ccl; using namespace ccl::rslang;
int main(int argc, char** argv) {
  if (argc < 2) return 2;
  Inputs in(argc, argv);
  const int K = 3; const int n = (int)in.I("in_ntok"); const long len = in.I("in_len");
  if (n < 0 || n > K || len < 0 || len > 4096) return 2;
  int s[K], f[K], newlen[K]; bool accept[K], has[K], differs[K];
  for (int k = 0; k < K; ++k) { auto ix = "[" + std::to_string(k) + "]";
    s[k] = (int)in.I("in_s" + ix); f[k] = (int)in.I("in_f" + ix); newlen[k] = (int)in.I("in_newlen" + ix);
    accept[k] = in.I("in_accept" + ix) != 0; has[k] = in.I("in_has" + ix) != 0; differs[k] = in.I("in_differs" + ix) != 0; }
  // the literal layout is used when the real lexer can produce it; otherwise the same token lengths and new-name lengths
  // are laid out with one blank between tokens (the failed obligations depend on lengths and accumulated differences only)
  bool literal = true;
  for (int k = 0; k < n; ++k) { if (f[k] - s[k] < 2 || !accept[k]) literal = false; if (k > 0 && s[k] == f[k-1]) literal = false; }
  if (!literal) { long pos = 1; for (int k = 0; k < n; ++k) { int l = f[k] - s[k]; if (l < 2) l = 2; s[k] = (int)pos; f[k] = s[k] + l; pos = f[k] + 1; accept[k] = true; }
                  std::printf("replaying a normalised layout (tokens separated by one blank)\n"); }
  long total = n > 0 ? f[n-1] + 1 : 1; if (literal && len > total) total = len;
  std::string text(total, ' ');
  std::vector<std::string> names(n), repl(n);
  for (int k = 0; k < n; ++k) {
    const int l = f[k] - s[k];
    std::string id = "X" + std::string(l - 1, '0'); id[l - 1] = char('1' + k);       // distinct names X..01, X..02, X..03
    names[k] = id; text.replace(s[k], l, id);
    if (!has[k]) repl[k] = id;
    else if (!differs[k]) repl[k] = id;
    else { int nl = newlen[k] < 2 ? 2 : newlen[k]; if (nl == l) nl = l + 1;
           repl[k] = "S" + std::string(nl - 1, '7'); repl[k][nl - 1] = char('1' + k); }
  }
  std::string expected = text; long delta = 0; int count = 0;
  for (int k = 0; k < n; ++k) if (has[k] && differs[k]) { expected.replace(s[k] + delta, f[k] - s[k], repl[k]); delta += (long)repl[k].size() - (f[k] - s[k]); ++count; }
  std::string actual = text;
  const auto translator = [&](const std::string& name) -> std::optional<std::string> {
    for (int k = 0; k < n; ++k) if (names[k] == name) { if (!has[k]) return std::nullopt; return repl[k]; }
    return std::nullopt; };
  int got = -1;
  try { got = TranslateRS(actual, TFFactory::FilterGlobals(), translator); }
  catch (const std::exception& e) { EXPECT(false, "TranslateRS threw %s on \"%s\"", e.what(), text.c_str()); return verdict(); }
  EXPECT(actual == expected, "TranslateRS(\"%s\") = \"%s\", expected \"%s\"", text.c_str(), actual.c_str(), expected.c_str());
  EXPECT(got == count, "TranslateRS reported %d replacements, expected %d", got, count);
  return verdict();
}
