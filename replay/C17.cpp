// Native replay for C17: the real scanner / parser of cclLang (Reference.cpp is included as a
// translation unit so that its anonymous-namespace helpers are reachable) vs. a reference scanner
// written from the property statement.
#include "Reference.cpp"
#include "replay_util.hpp"
#include <csetjmp>
using namespace ccl; using namespace ccl::lang;
static int W(unsigned char b) { if (b < 0x80) return 1; if ((b & 0xE0) == 0xC0) return 2; if ((b & 0xF0) == 0xE0) return 3; if ((b & 0xF8) == 0xF0) return 4; return 0; }
static bool offsets(const std::string& s, std::vector<size_t>& off) {
  off.clear(); size_t i = 0;
  while (i < s.size()) { int w = W((unsigned char)s[i]); if (!w || i + w > s.size()) return false; off.push_back(i); i += w; }
  off.push_back(s.size()); return true; }

int main(int argc, char** argv) {
  if (argc < 2) return 2;
  std::string g = argv[1]; Inputs in(argc, argv);
  size_t len = (size_t)in.I("in_s.len", 0); if (len > 4096) len = 4096;
  std::string s = in.bytes("in_buf", len, 'a');
  if (in.has("text")) s = in.kv.at("text");
  std::vector<size_t> off;
  if (!offsets(s, off)) { std::printf("replay: trace string is not well-formed UTF-8; nothing to compare\n"); return 1; }
  size_t m = off.size() - 1;
  auto cp = [&](size_t q) { return s[off[q]]; };
  if (g.rfind("sc_", 0) == 0) {
    // for every start position: first opener at or after start; first return to depth 0
    for (size_t st = 0; st <= m; ++st) {
      long want = -1;
      for (size_t p = st; p + 1 < m; ++p) if (cp(p) == '@' && cp(p + 1) == '{') { want = (long)p + 1; break; }
      auto it = ReferenceStart(s, (StrPos)st);
      // the real function also returns end when the text ends in '@'
      if (want >= 0) EXPECT(it.Position() == want, "ReferenceStart(from %zu) = %d, first opener '{' is at %ld", st, it.Position(), want);
      else EXPECT(it == UTF8End(s), "ReferenceStart(from %zu) = %d, but there is no opener", st, it.Position());
      if (st < m) {
        long e = -1; int d = 0;
        for (size_t q = st; q < m; ++q) { if (cp(q) == '{') ++d; else if (cp(q) == '}') --d; if (d == 0) { e = (long)q; break; } }
        auto r = ReferenceEnd(s, UTF8Iterator(s, (StrPos)st));
        if (e >= 0) EXPECT(r.Position() == e, "ReferenceEnd(from %zu) = %d, depth returns to 0 at %ld", st, r.Position(), e);
        else EXPECT(r == UTF8End(s), "ReferenceEnd(from %zu) = %d, depth never returns to 0", st, r.Position());
      }
      auto nr = NextReference(s, (StrPos)st);
      if (nr.has_value()) EXPECT(nr->start >= (StrPos)st && nr->finish > nr->start + 1 && (size_t)nr->finish <= m && cp(nr->start) == '@' && cp(nr->start + 1) == '{' && cp(nr->finish - 1) == '}', "NextReference(from %zu) = [%d,%d) is not a reference occurrence", st, nr->start, nr->finish);
    }
    return verdict();
  }
  if (g.rfind("px_", 0) == 0) {
    // parse-level: must not throw / terminate for any text; a collaboration offset is the decimal value of its field
    try {
      auto ref = Reference::Parse(s);
      std::printf("Parse(\"%s\") -> type %d\n", s.c_str(), (int)ref.GetType());
      if (ref.IsCollaboration()) {
        auto bar = s.find('|'); std::string field = s.substr(2, bar == std::string::npos ? 0 : bar - 2);
        long long want = std::strtoll(field.c_str(), nullptr, 10);
        EXPECT((long long)ref.GetOffset() == want, "collaboration offset %d, but the field reads %lld", (int)ref.GetOffset(), want);
      }
      auto refs = Reference::ExtractAll(s); (void)refs;
    }
    catch (const std::exception& e) { EXPECT(false, "Reference::Parse threw %s", e.what()); }
    return verdict();
  }
  return 2;
}
