// Native replay for C04 / tg_global: the name of an axiom (a global of type LOGIC) used as an operand.  The schema
// check of the new constituent must return normally; an escaping std::bad_variant_access confirms the violation.
#include "ccl/semantic/RSForm.h"
#include "replay_util.hpp"
using namespace ccl; using namespace ccl::semantic;
int main(int argc, char** argv) {
  if (argc < 2) return 2;
  Inputs in(argc, argv);
  if (!in.I("in_known") || !in.I("in_global_is_logic") || in.I("in_is_function")) { std::printf("counterexample is not 'known logic-typed global'\n"); return 2; }
  RSForm s{}; s.Emplace(CstType::base); s.Emplace(CstType::axiom, "1=1");
  for (const std::string e : { "A1\xE2\x88\xAAX1", "card(A1)", "A1+1", "pr1(A1)", "X1\xE2\x88\x88" "A1" }) {
    try { const auto d = s.Emplace(CstType::term, e); EXPECT(s.GetParse(d).status != ParsingStatus::VERIFIED, "'%s' with the axiom name A1 as an operand is VERIFIED", e.c_str()); s.Erase(d); }
    catch (const std::exception& ex) { EXPECT(false, "checking '%s' (A1 is an axiom) threw %s", e.c_str(), ex.what()); }
  }
  return verdict();
}
