// Native replay for C03 / tp_compare, tp_bind (scenario replay): templated term-functions typed by the checker itself, then
// called with empty-set arguments at every level of the parameter type.  Each radical must be instantiated (with R0),
// the reported type must not contain a mangled radical, and the result must be usable where a set of that structure is.
#include "ccl/rslang/TypeAuditor.h"
#include "ccl/rslang/Parser.h"
#include "ccl/rslang/Literals.h"
#include "replay_util.hpp"
#include <optional>
#include <string>
#include <unordered_map>
using namespace ccl::rslang;
class Context final : public TypeContext {
public:
  struct Element {
    std::optional<ExpressionType> type{};
    std::optional<TypeTraits> traits{};
    std::optional<FunctionArguments> arguments{};
  };
  std::unordered_map<std::string, Element> data{};

  void InsertBase(const std::string& name) {
    data[name].type = Typification(name).Bool();
    data[name].traits = TraitsNominal;
  }

  const ExpressionType* TypeFor(const std::string& name) const final {
    const auto it = data.find(name);
    return it == data.end() || !it->second.type.has_value() ? nullptr : &it->second.type.value();
  }
  const FunctionArguments* FunctionArgsFor(const std::string& name) const final {
    const auto it = data.find(name);
    return it == data.end() || !it->second.arguments.has_value() ? nullptr : &it->second.arguments.value();
  }
  std::optional<TypeTraits> TraitsFor(const Typification& type) const final {
    if (type == Typification::Integer()) {
      return TraitsIntegral;
    }
    if (!type.IsElement()) {
      return std::nullopt;
    }
    const auto it = data.find(type.E().baseID);
    return it == data.end() ? std::nullopt : it->second.traits;
  }
};


static std::string Check(Context& env, const std::string& input) {
  Parser parser{};
  if (!parser.Parse(input, Syntax::ASCII)) return "<parse error>";
  TypeAuditor auditor{ env, parser.log.SendReporter() };
  if (!auditor.CheckType(parser.AST())) return "<rejected>";
  const auto& type = auditor.GetType();
  if (std::holds_alternative<LogicT>(type)) return "LOGIC";
  return std::get<Typification>(type).ToString();
}
static void Expect(Context& env, const std::string& input, const std::string& expected) {
  const auto actual = Check(env, input);
  const auto want = expected == "LOGIC" ? expected : operator""_t(expected.c_str(), expected.size()).ToString();
  EXPECT(actual == want, "%s has type %s, expected %s", input.c_str(), actual.c_str(), want.c_str());
}
int main(int argc, char** argv) {
  if (argc < 2) return 2;
  Context env{};
  env.InsertBase("X1");
  env.data["S1"].type = "B(X1*X1)"_t;
  const auto declare = [&](const std::string& name, const std::string& definition) {
    Parser parser{};
    TypeAuditor auditor{ env, parser.log.SendReporter() };
    if (!parser.Parse(definition, Syntax::ASCII) || !auditor.CheckType(parser.AST())) { std::printf("cannot type %s\n", definition.c_str()); std::exit(2); }
    env.data[name].type = auditor.GetType();
    env.data[name].arguments = auditor.GetDeclarationArgs();
  };
  declare("F5", R"(F5 \defexpr [a \in B(R1)] a)");
  declare("F6", R"(F6 \defexpr [a \in B(R1), b \in B(R2)] a*b)");
  declare("F7", R"(F7 \defexpr [a \in BB(R1)] a)");
  declare("F8", R"(F8 \defexpr [a \in B(R1*R2)] a)");
  Expect(env, R"(F5[X1])", "B(X1)");
  Expect(env, R"(F5[{}])", "B(R0)");
  Expect(env, R"(F6[X1, {}])", "B(X1*R0)");
  Expect(env, R"(F6[{}, {}])", "B(R0*R0)");
  Expect(env, R"(F5[{}] \eq X1)", "LOGIC");
  Expect(env, R"({F5[{}], X1})", "BB(X1)");
  Expect(env, R"(F5[F5[{}]] \eq X1)", "LOGIC");
  Expect(env, R"(F7[{}])", "BB(R0)");
  Expect(env, R"(F7[{{}}])", "BB(R0)");
  Expect(env, R"(F7[{}] \eq B(X1))", "LOGIC");
  Expect(env, R"(F8[{}])", "B(R0*R0)");
  Expect(env, R"(F8[{}] \eq S1)", "LOGIC");
  return verdict();
}
