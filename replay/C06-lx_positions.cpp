// Native replay for C06 / lx_positions (scenario replay): MATH text with multi-byte symbols before a newline; the ranges of the
// tree must be the same code-point positions as for the same text with a blank instead of the newline.
#include "ccl/rslang/Parser.h"
#include "replay_util.hpp"
using namespace ccl; using namespace ccl::rslang;
static void collect(SyntaxTree::Cursor c, std::vector<StrRange>& out) { out.push_back(c->pos); for (Index i = 0; i < c.ChildrenCount(); ++i) collect(c.Child(i), out); }
int main(int argc, char** argv) {
  if (argc < 2) return 2;
  for (const std::string e : { "a\xE2\x88\x88X1 & b\xE2\x88\x88X2", "\xE2\x88\x80\xCE\xB1\xE2\x88\x88X1 (\xCE\xB1\xE2\x88\x88X2 \xE2\x87\x92 \xCE\xB1\xE2\x88\x88X3)", "a=b & b=c" }) {
    std::string multi = e; for (auto& ch : multi) if (ch == ' ') ch = '\n';
    Parser p1, p2;
    if (!p1.Parse(e, Syntax::MATH) || !p2.Parse(multi, Syntax::MATH)) { EXPECT(false, "'%s' does not parse with newlines as blanks", e.c_str()); continue; }
    std::vector<StrRange> r1, r2; collect(p1.AST().Root(), r1); collect(p2.AST().Root(), r2);
    EXPECT(r1.size() == r2.size(), "'%s': different trees", e.c_str());
    for (size_t k = 0; k < r1.size() && k < r2.size(); ++k)
      EXPECT(r1[k].start == r2[k].start && r1[k].finish == r2[k].finish, "'%s': node %zu has range [%d,%d) with blanks and [%d,%d) with newlines", e.c_str(), k, r1[k].start, r1[k].finish, r2[k].start, r2[k].finish);
  }
  return verdict();
}
