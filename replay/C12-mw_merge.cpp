// Native replay for C12 / mw_merge (scenario replay): operand 2 has a constituent whose text mentions its own name and a
// later constituent, and its alias is taken in the target.  After MergeWith the copy must mention ITSELF and the copy of
// the other one; a mention translated twice shows the other copy's alias in both places.
#include "ccl/semantic/RSForm.h"
#include "replay_util.hpp"
using namespace ccl; using namespace ccl::semantic;
int main(int argc, char** argv) {
  if (argc < 2) return 2;
  RSForm a, b;
  a.Emplace(CstType::base);
  const auto b1 = b.Emplace(CstType::base), b2 = b.Emplace(CstType::base);
  b.SetDefinitionFor(b1, "self @{X1|sing,nomn} other @{X2|sing,nomn}");
  const auto tr = a.Ops().MergeWith(b);
  if (!tr.ContainsKey(b1) || !tr.ContainsKey(b2) || !a.Contains(tr(b1)) || !a.Contains(tr(b2))) { EXPECT(false, "the returned translation does not map the operand's constituents to existing copies"); return verdict(); }
  const std::string want = "self @{" + a.GetRS(tr(b1)).alias + "|sing,nomn} other @{" + a.GetRS(tr(b2)).alias + "|sing,nomn}";
  const std::string got = a.GetText(tr(b1)).definition.Raw();
  std::printf("copy of the operand's X1 is %s, of X2 is %s; text: %s\n", a.GetRS(tr(b1)).alias.c_str(), a.GetRS(tr(b2)).alias.c_str(), got.c_str());
  EXPECT(got == want, "merged text is '%s', every mention rewritten once gives '%s'", got.c_str(), want.c_str());
  return verdict();
}
