// Native replay for C05: build the two-level expression for (parent, position, child) from templates,
// parse it with the real parser, print it with the real generator, re-parse, compare trees.
#include "ccl/rslang/Parser.h"
#include "ccl/rslang/RSGenerator.h"
#include "replay_util.hpp"
using namespace ccl::rslang;
static bool is_arith(TokenID c) { return c == TokenID::PLUS || c == TokenID::MINUS || c == TokenID::MULTIPLY; }
static bool is_setop(TokenID c) { return c == TokenID::UNION || c == TokenID::INTERSECTION || c == TokenID::SET_MINUS || c == TokenID::SYMMINUS; }
static bool is_setbin(TokenID c) { return is_arith(c) || is_setop(c) || c == TokenID::DECART; }
static bool is_logicbin(TokenID c) { return c == TokenID::AND || c == TokenID::OR || c == TokenID::IMPLICATION || c == TokenID::EQUIVALENT; }
static std::string op(TokenID id) { return Token::Str(id, Syntax::ASCII); }
static int n_atom = 0;
static std::string atom(bool logic) { ++n_atom; return logic ? std::to_string(n_atom) + "=" + std::to_string(n_atom) : "X" + std::to_string(n_atom); }
// expression whose root is `id` (binary), or an atom
static std::string expr_of(TokenID id, bool logic) {
  if (logic ? is_logicbin(id) : is_setbin(id)) return atom(logic) + op(id) + atom(logic);
  if (logic && id == TokenID::NOT) return op(TokenID::NOT) + atom(true);
  if (logic && (id == TokenID::FORALL || id == TokenID::EXISTS)) return op(id) + "a \\in X1 " + atom(true);
  return atom(logic);
}
static void roundtrip(const std::string& text) {
  for (Syntax syn : { Syntax::ASCII, Syntax::MATH }) {
    Parser p0; if (!p0.Parse(text, Syntax::ASCII)) { std::printf("template does not parse: %s\n", text.c_str()); return; }
    const std::string printed = Generator::FromTree(p0.AST(), syn);
    Parser p1; bool ok = p1.Parse(printed, syn);
    EXPECT(ok, "printed text does not parse: '%s' (from '%s')", printed.c_str(), text.c_str());
    if (ok) EXPECT(p0.AST() == p1.AST(), "round trip changes the tree: '%s' printed as '%s'", text.c_str(), printed.c_str());
  }
}
int main(int argc, char** argv) {
  if (argc < 2) return 2;
  std::string g = argv[1]; Inputs in(argc, argv);
  TokenID P = (TokenID)in.I("in_parent.id");
  auto C = [&](int k) { return (TokenID)in.I("in_child[" + std::to_string(k) + "].id"); };
  if (g == "br_compare") {
    TokenID a = (TokenID)in.I("in_a"), b = (TokenID)in.I("in_b");
    bool logic = is_logicbin(a);
    if (!((is_setbin(a) && is_setbin(b)) || (is_logicbin(a) && is_logicbin(b)))) return 1;
    // a as parent over b on both sides, b as parent over a on both sides
    for (auto pr : { std::make_pair(a, b), std::make_pair(b, a) }) {
      roundtrip("(" + expr_of(pr.second, logic) + ")" + op(pr.first) + atom(logic));
      roundtrip(atom(logic) + op(pr.first) + "(" + expr_of(pr.second, logic) + ")");
    }
    return verdict();
  }
  if (g == "br_arith" || g == "br_logic") {
    bool logic = g == "br_logic";
    auto side = [&](TokenID c) { std::string e = expr_of(c, logic); return (logic ? is_logicbin(c) : is_setbin(c)) ? "(" + e + ")" : e; };
    roundtrip(side(C(0)) + op(P) + side(C(1)));
    return verdict();
  }
  if (g == "br_decart") {
    int n = (int)in.I("in_nchild"); std::string t;
    for (int k = 0; k < n; ++k) { if (k) t += op(TokenID::DECART); TokenID c = C(k); std::string e = expr_of(c, false); t += is_setbin(c) ? "(" + e + ")" : e; }
    roundtrip(t);
    return verdict();
  }
  if (g == "br_prefix") {
    int body = P == TokenID::NOT ? 0 : 2; TokenID c = C(body);
    std::string e = expr_of(c, true); if (is_logicbin(c)) e = "(" + e + ")";
    roundtrip(P == TokenID::NOT ? op(P) + e : op(P) + "a \\in X1 " + e);
    return verdict();
  }
  if (g == "br_textops") {
    if (P == TokenID::BOOLEAN) roundtrip("B(" + expr_of(C(0), false) + ")"); else roundtrip("card(" + expr_of(C(0), false) + ")");
    return verdict();
  }
  return 2;
}
