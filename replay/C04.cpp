// Native replay for C04: feed the counterexample bytes to the real kernels; a throw, a crash (signal) or an
// out-of-range result confirms the violation.
#include "Reference.cpp"
#include "replay_util.hpp"
using namespace ccl; using namespace ccl::lang;
int main(int argc, char** argv) {
  if (argc < 2) return 2;
  std::string g = argv[1]; Inputs in(argc, argv);
  size_t len = (size_t)in.I("in_s.len", 0); if (len > 4096) len = 4096;
  std::string s = in.bytes("in_buf", len, 'a');
  try {
    if (g == "k_extractall") {
      auto refs = Reference::ExtractAll(s);
      for (size_t i = 0; i < refs.size(); ++i) {
        EXPECT(refs[i].IsValid() && refs[i].position.start >= 0 && refs[i].position.start + 1 < refs[i].position.finish, "reference %zu has range [%d,%d)", i, refs[i].position.start, refs[i].position.finish);
        if (i + 1 < refs.size()) EXPECT(refs[i].position.finish <= refs[i + 1].position.start, "ranges %zu and %zu overlap", i, i + 1);
      }
    } else if (g == "k_strings") {
      (void)IsInteger(s); (void)TrimWhitespace(s); (void)SplitBySymbol(s, (char)in.I("in_delim", ','));
    } else if (g == "k_utf8_illformed") {
      int n = SizeInCodePoints(s); EXPECT(n >= 0 && (size_t)n <= s.size(), "SizeInCodePoints = %d for %zu bytes", n, s.size());
      auto r = Substr(s, StrRange{ (StrPos)in.I("in_r.start"), (StrPos)in.I("in_r.finish") });
      EXPECT(r.empty() || (r.data() >= s.data() && r.data() + r.size() <= s.data() + s.size()), "Substr view leaves the source");
    } else return 2;
  } catch (const std::exception& e) { EXPECT(false, "the kernel threw %s", e.what()); }
  return verdict();
}
