// Native replay for C05 / gn_state (scenario replay): one process asks the shared generator for both syntaxes, in both orders
// (each order in a child process: the generator is a function-local static).  Text generated for a syntax must parse in it.
#include "ccl/rslang/Parser.h"
#include "ccl/rslang/RSGenerator.h"
#include "replay_util.hpp"
#include <sys/wait.h>
#include <unistd.h>
using namespace ccl; using namespace ccl::rslang;
static int history(Syntax first, Syntax second) {
  int bad = 0;
  for (const std::string e : { "X1\\(X2\xE2\x88\xAAX3)", "\xE2\x88\x80" "a\xE2\x88\x88X1 (a\xE2\x88\x88S1 \xE2\x87\x92 a\xE2\x88\x89S2)", "D{a\xE2\x88\x88X1 | a=a}" }) {
    Parser p; if (!p.Parse(e, Syntax::MATH)) continue;
    for (const auto syntax : { first, second }) {
      const auto text = Generator::FromTree(p.AST(), syntax);
      Parser q;
      if (!q.Parse(text, syntax)) { ++bad; std::printf("text generated for %s after a request for %s does not parse in it: '%s'\n", syntax == Syntax::MATH ? "MATH" : "ASCII", syntax == first ? "nothing else" : (first == Syntax::MATH ? "MATH" : "ASCII"), text.c_str()); }
    }
  }
  std::fflush(stdout);
  return bad;
}
int main(int argc, char** argv) {
  if (argc < 2) return 2;
  for (int order = 0; order < 2; ++order) {
    const auto pid = fork();
    if (pid == 0) _exit(history(order == 0 ? Syntax::MATH : Syntax::ASCII, order == 0 ? Syntax::ASCII : Syntax::MATH) > 0 ? 1 : 0);
    int status = 0; waitpid(pid, &status, 0);
    EXPECT(WIFEXITED(status) && WEXITSTATUS(status) == 0, "history %s: generated text depends on what the process generated before", order == 0 ? "MATH then ASCII" : "ASCII then MATH");
  }
  return verdict();
}
