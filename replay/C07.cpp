// Native replay for C07 (incremental re-analysis = analysis from scratch).  The contract obligations are
// call-protocol obligations over an abstract dependency graph (edge a -> b: b mentions a, after the edit); the
// replay realises the counterexample graph on the real RSForm: constituents D1..DN are terms whose definition is
// the union of their inputs (or X1), the edited constituent starts as "X1" and is then given its final
// definition through SetExpressionFor; the result is compared with a schema built from the final content.
#include "ccl/semantic/RSForm.h"
#include "replay_util.hpp"
using namespace ccl; using namespace ccl::semantic;
static const int N = 3;
int main(int argc, char** argv) {
  if (argc < 2) return 2;
  std::string g = argv[1]; Inputs in(argc, argv);
  if (g != "rp_triggerparse" && g != "rp_setdefinition" && g != "rp_translate") return 2;
  const int target = (int)in.I("in_t");
  bool present[N]; bool e[N][N];
  for (int i = 0; i < N; ++i) { present[i] = in.I("in_present[" + std::to_string(i) + "]") != 0; }
  for (int a = 0; a < N; ++a) for (int b = 0; b < N; ++b) e[a][b] = present[a] && present[b] && in.I("in_e[" + std::to_string(a) + "][" + std::to_string(b) + "]") != 0;
  if (target < 0 || target >= N || !present[target]) return 2;
  auto alias = [&](int i) { return "D" + std::to_string(i + 1); };
  auto run = [&](const char* what) {
    auto def = [&](int i) { std::string d; for (int a = 0; a < N; ++a) if (e[a][i]) { if (!d.empty()) d += "\xE2\x88\xAA"; d += alias(a); } return d.empty() ? std::string("X1") : d; };
    // names D1..DN must be the generated aliases: create terms in index order (missing ones are created and erased)
    auto build = [&](RSForm& s, bool final_target, EntityUID uid[N]) {
      s.Emplace(CstType::base);
      for (int i = 0; i < N; ++i) uid[i] = s.Emplace(CstType::term, (i == target && !final_target) ? std::string("X1") : def(i));
      for (int i = 0; i < N; ++i) if (!present[i]) s.Erase(uid[i]);
    };
    RSForm inc{}; EntityUID ui[N]; build(inc, false, ui);
    for (int i = 0; i < N; ++i) if (present[i] && inc.GetRS(ui[i]).alias != alias(i)) { std::printf("unexpected alias %s\n", inc.GetRS(ui[i]).alias.c_str()); return 2; }
    inc.SetExpressionFor(ui[target], def(target));
    RSForm fresh{}; EntityUID uf[N]; build(fresh, true, uf);
    for (int i = 0; i < N; ++i) if (present[i]) {
      const auto& a = inc.GetParse(ui[i]); const auto& b = fresh.GetParse(uf[i]);
      EXPECT(a.status == b.status, "[%s] %s := %s: after the edit of %s the reused schema reports status %d, a schema built from the same content reports %d",
             what, alias(i).c_str(), def(i).c_str(), alias(target).c_str(), (int)a.status, (int)b.status);
      EXPECT(a.exprType.has_value() == b.exprType.has_value(), "[%s] %s: typification present %d vs %d", what, alias(i).c_str(), (int)a.exprType.has_value(), (int)b.exprType.has_value());
    }
    return 0;
  };
  if (run("counterexample graph") == 2) return 2;
  if (!g_bad) {
    // the failed obligation is about a definition cycle through the edited constituent: the same counterexample with
    // everything outside that cycle removed (other constituents become plain X1) shows the consequence in isolation
    bool reach[N][N];
    for (int a = 0; a < N; ++a) for (int b = 0; b < N; ++b) reach[a][b] = e[a][b];
    for (int k = 0; k < N; ++k) for (int a = 0; a < N; ++a) for (int b = 0; b < N; ++b) if (reach[a][k] && reach[k][b]) reach[a][b] = true;
    bool scc[N]; for (int i = 0; i < N; ++i) scc[i] = (i == target) || (reach[i][target] && reach[target][i]);
    for (int a = 0; a < N; ++a) for (int b = 0; b < N; ++b) if (!(scc[a] && scc[b]) || a == b) e[a][b] = false;
    if (run("cycle through the edited constituent only") == 2) return 2;
  }
  return verdict();
}
