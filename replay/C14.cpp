// Native replay for C14: rebuild the counterexample graph through the PUBLIC mutators of the real
// ccl::graph::CGraph, run the query / mutator of the failed group, compare with an adjacency-matrix oracle.
#include "ccl/graph/CGraph.h"
#include "replay_util.hpp"
#include <set>
#include <algorithm>
using ccl::graph::CGraph; using ccl::EntityUID;
static const int MAXN = 8;
struct Model { std::vector<EntityUID> ids; bool e[MAXN][MAXN] = {}; bool r[MAXN][MAXN] = {};
  int idx(EntityUID u) const { for (size_t i = 0; i < ids.size(); ++i) if (ids[i] == u) return (int)i; return -1; }
  void close() { int n = (int)ids.size(); for (int i = 0; i < n; ++i) for (int j = 0; j < n; ++j) r[i][j] = e[i][j];
    for (int k = 0; k < n; ++k) for (int i = 0; i < n; ++i) for (int j = 0; j < n; ++j) r[i][j] = r[i][j] || (r[i][k] && r[k][j]); } };

// model read back from the real object through its public API over a universe of uids
static Model read_model(const CGraph& g, const std::vector<EntityUID>& universe) {
  Model m; for (auto u : universe) if (g.Contains(u)) m.ids.push_back(u);
  for (size_t i = 0; i < m.ids.size(); ++i) for (size_t j = 0; j < m.ids.size(); ++j) m.e[i][j] = g.ConnectionExists(m.ids[i], m.ids[j]);
  m.close(); return m; }

static void check_queries(const CGraph& g, const Model& m, const Inputs& in) {
  int n = (int)m.ids.size();
  EXPECT(g.ItemsCount() == n, "ItemsCount %d, model %d", g.ItemsCount(), n);
  int ec = 0; for (int i = 0; i < n; ++i) for (int j = 0; j < n; ++j) ec += m.e[i][j];
  EXPECT(g.ConnectionsCount() == ec, "ConnectionsCount %d, model %d", g.ConnectionsCount(), ec);
  bool cyc = false; for (int i = 0; i < n; ++i) cyc = cyc || m.r[i][i];
  EXPECT(g.HasLoop() == cyc, "HasLoop %d, model %d", (int)g.HasLoop(), (int)cyc);
  for (int i = 0; i < n; ++i) {
    auto ins = g.InputsFor(m.ids[i]);
    for (int j = 0; j < n; ++j) EXPECT((ins.count(m.ids[j]) != 0) == m.e[j][i], "InputsFor(%u) vs edge %u->%u", m.ids[i], m.ids[j], m.ids[i]);
    EXPECT((int)ins.size() <= n, "InputsFor size");
    auto fo = g.ExpandOutputs({ m.ids[i] }); auto ba = g.ExpandInputs({ m.ids[i] });
    for (int j = 0; j < n; ++j) {
      EXPECT((fo.count(m.ids[j]) != 0) == (i == j || m.r[i][j]), "ExpandOutputs({%u}) membership of %u", m.ids[i], m.ids[j]);
      EXPECT((ba.count(m.ids[j]) != 0) == (i == j || m.r[j][i]), "ExpandInputs({%u}) membership of %u", m.ids[i], m.ids[j]);
      if (i != j) EXPECT(g.IsReachableFrom(m.ids[j], m.ids[i]) == m.r[i][j], "IsReachableFrom(%u, %u)", m.ids[j], m.ids[i]);
    }
  }
  // multi-source closure with the trace's input set, when present
  if (in.has("in_set.size")) {
    CGraph::UnorderedItems s; for (long long a = 0; a < in.I("in_set.size") && a < MAXN; ++a) s.insert((EntityUID)in.I("in_set.data[" + std::to_string(a) + "]"));
    auto fo = g.ExpandOutputs(s), ba = g.ExpandInputs(s);
    for (int j = 0; j < n; ++j) { bool wf = false, wb = false;
      for (int i = 0; i < n; ++i) if (s.count(m.ids[i])) { wf = wf || i == j || m.r[i][j]; wb = wb || i == j || m.r[j][i]; }
      EXPECT((fo.count(m.ids[j]) != 0) == wf, "ExpandOutputs(set) membership of %u", m.ids[j]);
      EXPECT((ba.count(m.ids[j]) != 0) == wb, "ExpandInputs(set) membership of %u", m.ids[j]); }
    EXPECT(fo.size() <= (size_t)n && ba.size() <= (size_t)n, "closure returns only live items");
  }
  auto t = g.TopologicalOrder(); auto inv = g.InverseTopologicalOrder();
  EXPECT((int)t.size() == n, "TopologicalOrder size %zu, model %d", t.size(), n);
  for (int i = 0; i < n; ++i) EXPECT(std::count(t.begin(), t.end(), m.ids[i]) == 1, "TopologicalOrder lists %u exactly once", m.ids[i]);
  if (!cyc) for (int i = 0; i < n; ++i) for (int j = 0; j < n; ++j) if (m.e[i][j])
    EXPECT(std::find(t.begin(), t.end(), m.ids[i]) < std::find(t.begin(), t.end(), m.ids[j]), "TopologicalOrder: %u before %u", m.ids[i], m.ids[j]);
  EXPECT(std::vector<EntityUID>(t.rbegin(), t.rend()) == inv, "InverseTopologicalOrder is the reverse");
  auto groups = g.GetAllLoopsItems();
  for (int i = 0; i < n; ++i) { int cnt = 0; const CGraph::UnorderedItems* grp = nullptr;
    for (auto& gr : groups) if (gr.count(m.ids[i])) { ++cnt; grp = &gr; }
    if (!m.r[i][i]) EXPECT(cnt == 0, "GetAllLoopsItems: %u lies on no cycle but is in a group", m.ids[i]);
    else { EXPECT(cnt == 1, "GetAllLoopsItems: %u on a cycle is in %d groups", m.ids[i], cnt);
      if (grp) for (int j = 0; j < n; ++j) EXPECT((grp->count(m.ids[j]) != 0) == (m.r[i][j] && m.r[j][i]), "GetAllLoopsItems: group of %u vs SCC membership of %u", m.ids[i], m.ids[j]); } }
}

int main(int argc, char** argv) {
  if (argc < 2) return 2;
  std::string g = argv[1]; Inputs in(argc, argv);
  // ---- rebuild the counterexample graph: slots in order; tombstones via add-then-erase; edges per outputs list
  size_t sz = (size_t)in.I("in_g.graph.size"); if (sz > MAXN) return 2;
  CGraph real; std::vector<EntityUID> universe; std::vector<EntityUID> uid(sz); std::vector<bool> live(sz);
  std::set<EntityUID> used;
  for (size_t i = 0; i < sz; ++i) { live[i] = in.I("in_g.graph.data[" + std::to_string(i) + "].isValid") != 0; if (live[i]) { uid[i] = (EntityUID)in.I("in_g.graph.data[" + std::to_string(i) + "].uid"); used.insert(uid[i]); } }
  EntityUID fresh = 4000000000u;
  for (size_t i = 0; i < sz; ++i) { if (!live[i]) { while (used.count(fresh)) --fresh; uid[i] = fresh; used.insert(fresh); } real.AddItem(uid[i]); universe.push_back(uid[i]); }
  for (size_t i = 0; i < sz; ++i) if (live[i]) { size_t k = (size_t)in.I("in_g.graph.data[" + std::to_string(i) + "].outputs.size");
    for (size_t q = 0; q < k && q < MAXN; ++q) { long long j = in.I("in_g.graph.data[" + std::to_string(i) + "].outputs.data[" + std::to_string(q) + "]"); if (j >= 0 && (size_t)j < sz) real.AddConnection(uid[i], uid[(size_t)j]); } }
  for (size_t i = 0; i < sz; ++i) if (!live[i]) real.EraseItem(uid[i]);
  for (const char* k : { "in_u", "in_s", "in_d", "in_x", "in_a", "in_b" }) if (in.has(k)) universe.push_back((EntityUID)in.I(k));
  if (in.has("in_set.size")) for (long long a = 0; a < in.I("in_set.size") && a < MAXN; ++a) universe.push_back((EntityUID)in.I("in_set.data[" + std::to_string(a) + "]"));
  std::sort(universe.begin(), universe.end()); universe.erase(std::unique(universe.begin(), universe.end()), universe.end());
  Model before = read_model(real, universe);
  check_queries(real, before, in);             // the rebuilt graph itself must answer correctly
  // ---- mutator groups: apply and compare with the abstract update
  if (g.rfind("m_", 0) == 0) {
    Model want = before;
    auto ensure = [&](Model& m, EntityUID u) { if (m.idx(u) < 0) m.ids.push_back(u); return m.idx(u); };
    if (g == "m_additem") { EntityUID u = (EntityUID)in.I("in_u"); real.AddItem(u); ensure(want, u); }
    else if (g == "m_eraseitem") { EntityUID u = (EntityUID)in.I("in_u"); real.EraseItem(u);
      Model w2; for (auto x : want.ids) if (x != u) w2.ids.push_back(x);
      for (size_t i = 0; i < w2.ids.size(); ++i) for (size_t j = 0; j < w2.ids.size(); ++j) w2.e[i][j] = want.e[want.idx(w2.ids[i])][want.idx(w2.ids[j])]; want = w2; }
    else if (g == "m_addconnection") { EntityUID s = (EntityUID)in.I("in_s"), d = (EntityUID)in.I("in_d"); real.AddConnection(s, d); int a = ensure(want, s), b = ensure(want, d); want.e[a][b] = true; }
    else if (g == "m_setiteminputs") { EntityUID x = (EntityUID)in.I("in_x"); CGraph::UnorderedItems s; for (long long a = 0; a < in.I("in_set.size") && a < MAXN; ++a) s.insert((EntityUID)in.I("in_set.data[" + std::to_string(a) + "]"));
      real.SetItemInputs(x, s); int xi = ensure(want, x); for (auto u : s) ensure(want, u); for (size_t i = 0; i < want.ids.size(); ++i) want.e[i][xi] = s.count(want.ids[i]) != 0; }
    else if (g == "m_clear") { real.Clear(); want = Model{}; }
    want.close();
    Model after = read_model(real, universe);
    std::vector<EntityUID> a = after.ids, w = want.ids; std::sort(a.begin(), a.end()); std::sort(w.begin(), w.end());
    EXPECT(a == w, "item set after %s differs from the abstract update", g.c_str());
    if (a == w) for (auto x : w) for (auto y : w) EXPECT(after.e[after.idx(x)][after.idx(y)] == want.e[want.idx(x)][want.idx(y)], "edge %u->%u after %s", x, y, g.c_str());
    check_queries(real, after, in);
  }
  return verdict();
}
