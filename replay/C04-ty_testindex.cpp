// Native replay for C04 / ty_testindex, ty_component: a tuple typification with the counterexample's arity and the
// counterexample's 16-bit index.  TestIndex must say "1 <= index <= arity", and an accepted index must not make
// Component throw; finally the same index is sent through the public type check (pr<index> of a tuple literal).
#include "ccl/rslang/Typification.h"
#include "ccl/rslang/Auditor.h"
#include "ccl/rslang/RSGenerator.h"
#include "replay_util.hpp"
using namespace ccl; using namespace ccl::rslang;
int main(int argc, char** argv) {
  if (argc < 2) return 2;
  Inputs in(argc, argv);
  const auto index = static_cast<Index>(in.I("in_i"));
  auto arity = in.I("in_t.factors.size", 2); if (arity > 64) arity = 64; if (arity < 2) arity = 2;
  std::vector<Typification> comps(static_cast<size_t>(arity), Typification::Integer());
  const auto type = Typification::Tuple(comps);
  const bool accepted = type.T().TestIndex(index);
  EXPECT(accepted == (index >= 1 && index <= arity), "TestIndex(%d) on a tuple of %lld components says %d", int(index), arity, int(accepted));
  if (accepted) {
    try { (void)type.T().Component(index); }
    catch (const std::exception& ex) { EXPECT(false, "Component(%d) after TestIndex accepted it threw %s", int(index), ex.what()); }
  }
  std::string expr = "pr" + std::to_string(static_cast<unsigned short>(index)) + "((1";
  for (long long k = 1; k < arity; ++k) expr += ",1";
  expr += "))";
  struct NoGlobals : TypeContext {
    const ExpressionType* TypeFor(const std::string&) const override { return nullptr; }
    const FunctionArguments* FunctionArgsFor(const std::string&) const override { return nullptr; }
    std::optional<TypeTraits> TraitsFor(const Typification&) const override { return std::nullopt; }
  } ctx;
  try {
    Auditor auditor{ ctx, [](const std::string&) { return ValueClass::value; }, [](const std::string&) -> const SyntaxTree* { return nullptr; } };
    (void)auditor.CheckType(expr, Syntax::MATH);
  } catch (const std::exception& ex) { EXPECT(false, "type check of '%s' threw %s", expr.c_str(), ex.what()); }
  return verdict();
}
