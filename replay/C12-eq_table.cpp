// Native replay for C12 / eq_table (scenario replay): a two-pair equation table whose survivors depend on each other's
// removed constituents.  X1; D1:=X1\X1; D2:=X1\X1\X1; D3:=D2∪D2; D4:=D1∪D1; table {D1->D3, D2->D4}.
#include "ccl/semantic/RSForm.h"
#include "ccl/ops/EquationOptions.h"
#include "replay_util.hpp"
using namespace ccl; using namespace ccl::semantic;
int main(int argc, char** argv) {
  if (argc < 2) return 2;
  RSForm s;
  s.Emplace(CstType::base);
  const auto d1 = s.Emplace(CstType::term, "X1\\X1");
  const auto d2 = s.Emplace(CstType::term, "X1\\X1\\X1");
  const auto d3 = s.Emplace(CstType::term, "D2\xE2\x88\xAA" "D2");
  const auto d4 = s.Emplace(CstType::term, "D1\xE2\x88\xAA" "D1");
  auto verified = [&]() { size_t n = 0; for (const auto uid : s.List()) if (s.GetParse(uid).status == ParsingStatus::VERIFIED) ++n; return n; };
  if (verified() != std::size(s.List())) { std::printf("scenario schema is not fully correct; cannot replay\n"); return 2; }
  ops::EquationOptions eq{ d1, d3 }; eq.Insert(d2, d4);
  const bool accepted = s.Ops().IsEquatable(eq);
  std::printf("table {D1->D3, D2->D4}: %s\n", accepted ? "accepted" : "refused");
  if (accepted) {
    const auto tr = s.Ops().Equate(eq);
    for (const auto uid : s.List()) std::printf("  %s := %s  (%s)\n", s.GetRS(uid).alias.c_str(), s.GetRS(uid).definition.c_str(), s.GetParse(uid).status == ParsingStatus::VERIFIED ? "verified" : "INCORRECT");
    EXPECT(!tr.has_value() || verified() == std::size(s.List()), "a fully correct schema and a table of like with like give a result with %zu incorrect constituent(s) (cyclic definitions)", std::size(s.List()) - verified());
  }
  return verdict();
}
