// Native replay for C08 / cr_resetaliases (scenario replay): the list order disagrees with the numbering (X2 before X1), so the
// renumbering map is the swap X1<->X2; every mention must be rewritten by the SIMULTANEOUS map.
#include "ccl/semantic/RSForm.h"
#include "replay_util.hpp"
using namespace ccl; using namespace ccl::semantic;
int main(int argc, char** argv) {
  if (argc < 2) return 2;
  RSForm s{};
  const auto x1 = s.Emplace(CstType::base), x2 = s.Emplace(CstType::base);
  const auto d1 = s.Emplace(CstType::term, "X1\xC3\x97X2");
  s.SetConventionFor(x1, "X1 precedes X2");
  s.SetDefinitionFor(d1, "@{X1|sing,nomn} after @{X2|sing,nomn}");
  if (!s.MoveBefore(x2, s.List().Find(x1))) { std::printf("cannot reorder; cannot replay\n"); return 2; }
  s.ResetAliases();
  EXPECT(s.GetRS(x2).alias == "X1" && s.GetRS(x1).alias == "X2", "after the reset the first base set is X1 and the second X2 (got %s, %s)", s.GetRS(x2).alias.c_str(), s.GetRS(x1).alias.c_str());
  EXPECT(s.GetRS(d1).definition == "X2\xC3\x97X1", "D1 := X1\xC3\x97X2 must read X2\xC3\x97X1 after the swap, it reads %s", s.GetRS(d1).definition.c_str());
  EXPECT(s.GetRS(x1).convention == "X2 precedes X1", "the convention must read 'X2 precedes X1', it reads '%s'", s.GetRS(x1).convention.c_str());
  EXPECT(s.GetText(d1).definition.Raw() == "@{X2|sing,nomn} after @{X1|sing,nomn}", "the text definition must mention X2 then X1, it reads '%s'", s.GetText(d1).definition.Raw().c_str());
  return verdict();
}
