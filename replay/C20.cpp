// Native replay for C20: real ccl::StrRange / UTF-8 helpers vs. oracles written from the definitions.
#include "ccl/Strings.hpp"
#include "replay_util.hpp"
#include <optional>
using ccl::StrRange; using ccl::StrPos;

static bool HASP(long long s, long long f, long long p) { return s <= p && p < f; }

// --- oracle: byte-wise UTF-8 decoder written from the RFC 3629 lead-byte table -----------------
static int W(unsigned char b) { if (b < 0x80) return 1; if ((b & 0xE0) == 0xC0) return 2; if ((b & 0xF0) == 0xE0) return 3; if ((b & 0xF8) == 0xF0) return 4; return 0; }
static bool offsets(const std::string& s, std::vector<size_t>& off) {
  off.clear(); size_t i = 0;
  while (i < s.size()) { int w = W((unsigned char)s[i]); if (!w || i + w > s.size()) return false; off.push_back(i); i += w; }
  off.push_back(s.size()); return true;
}

static int intervals(const Inputs& in) {
  long long as = in.I("in_a.start"), af = in.I("in_a.finish"), bs = in.I("in_b.start"), bf = in.I("in_b.finish"), p = in.I("in_p");
  StrRange a{ (StrPos)as, (StrPos)af }, b{ (StrPos)bs, (StrPos)bf };
  bool wa = as <= af, wb = bs <= bf, na = as < af, nb = bs < bf;
  EXPECT(a.Contains((StrPos)p) == HASP(as, af, p), "Contains(pos): [%lld,%lld) pos %lld", as, af, p);
  for (long long q : { bs, bf - 1, bf, as, af - 1, af, std::max(as, bs) }) if (q >= -2147483648LL && q <= 2147483647LL)
    EXPECT(a.Contains((StrPos)q) == HASP(as, af, q), "Contains(pos): [%lld,%lld) pos %lld", as, af, q);
  EXPECT(a.empty() == (as == af), "empty");
  if (af - as <= 2147483647LL && af - as >= -2147483648LL) EXPECT(a.length() == af - as, "length");
  EXPECT((a == b) == (as == bs && af == bf), "==");
  EXPECT((a != b) == !(as == bs && af == bf), "!=");
  EXPECT(a.IsBefore(b) == (af < bs), "IsBefore"); EXPECT(a.IsAfter(b) == (bf < as), "IsAfter");
  EXPECT(a.Meets(b) == (af == bs), "Meets"); EXPECT(a.SharesBorder(b) == (af == bs || bf == as), "SharesBorder");
  EXPECT(a.Starts(b) == (as == bs && af < bf), "Starts"); EXPECT(a.Finishes(b) == (af == bf && as > bs), "Finishes");
  EXPECT(a.IsDuring(b) == (as > bs && af < bf), "IsDuring");
  if (wa && nb) EXPECT(a.Contains(b) == (as <= bs && bf <= af), "Contains(range) [%lld,%lld) in [%lld,%lld)", bs, bf, as, af);
  if (na && nb) EXPECT(a.Overlaps(b) == (as < bf && bs < af), "Overlaps [%lld,%lld) [%lld,%lld)", as, af, bs, bf);
  if (wa && wb) {
    EXPECT(a.Overlaps(b) == b.Overlaps(a), "Overlaps symmetric");
    auto r = a.Intersect(b);
    bool common = std::max(as, bs) < std::min(af, bf);
    bool expect_has = !(af < bs || bf < as);
    EXPECT(r.has_value() == expect_has, "Intersect has_value");
    if (r.has_value()) {
      EXPECT(r->start == std::max(as, bs) && r->finish == std::min(af, bf), "Intersect bounds");
      EXPECT(HASP(r->start, r->finish, p) == (HASP(as, af, p) && HASP(bs, bf, p)), "Intersect point %lld", p);
    } else EXPECT(!common, "no Intersect but common point");
    if (na && nb) {
      int n = a.IsBefore(b) + a.Meets(b) + a.Overlaps(b) + b.Meets(a) + a.IsAfter(b);
      EXPECT(n == 1, "trichotomy: %d relations hold", n);
    }
  }
  return verdict();
}

static int mutators(const std::string& g, const Inputs& in) {
  long long s = in.I("in_r.start"), f = in.I("in_r.finish"), n = in.I("in_n");
  StrRange r{ (StrPos)s, (StrPos)f };
  if (g == "iv_setlength") { if (s + n > 2147483647LL || s + n < -2147483648LL) return 1; auto& q = r.SetLength((StrPos)n); EXPECT(&q == &r && r.start == s && r.finish == s + n, "SetLength"); }
  else if (g == "iv_shift") { if (s + n > 2147483647LL || s + n < -2147483648LL || f + n > 2147483647LL || f + n < -2147483648LL) return 1; auto& q = r.Shift((StrPos)n); EXPECT(&q == &r && r.start == s + n && r.finish == f + n, "Shift"); }
  else if (g == "iv_collapse_end") { r.CollapseEnd(); EXPECT(r.start == f && r.finish == f, "CollapseEnd"); }
  else if (g == "iv_collapse_start") { r.CollapseStart(); EXPECT(r.start == s && r.finish == s, "CollapseStart"); }
  else if (g == "iv_ctor") { StrRange c{ (StrPos)in.I("in_s"), (StrPos)in.I("in_e") }; EXPECT(c.start == in.I("in_s") && c.finish == in.I("in_e"), "ctor"); }
  else if (g == "iv_default") { StrRange c{}; EXPECT(c.start == 0 && c.finish == 0, "default ctor"); }
  else if (g == "iv_fromlength") { long long a = in.I("in_s"), l = in.I("in_l"); if (a + l > 2147483647LL || a + l < -2147483648LL) return 1; auto c = StrRange::FromLength((StrPos)a, (StrPos)l); EXPECT(c.start == a && c.finish == a + l, "FromLength"); }
  return verdict();
}

static int merge(const Inputs& in) {
  size_t n = (size_t)in.I("in_v.size");
  std::vector<StrRange> v;
  for (size_t i = 0; i < n; ++i) v.emplace_back((StrPos)in.I("in_v.data[" + std::to_string(i) + "].start"), (StrPos)in.I("in_v.data[" + std::to_string(i) + "].finish"));
  auto r = StrRange::Merge(v);
  if (v.empty()) EXPECT(r.start == 0 && r.finish == 0, "Merge(empty)");
  else {
    long long mn = v[0].start, mx = v[0].finish;
    for (auto& e : v) { mn = std::min<long long>(mn, e.start); mx = std::max<long long>(mx, e.finish); }
    EXPECT(r.start == mn && r.finish == mx, "Merge: got [%d,%d) want [%lld,%lld)", r.start, r.finish, mn, mx);
  }
  return verdict();
}

int utf8_replay(const std::string& g, const Inputs& in);   // C20_utf8.inc

#include "C20_utf8.inc"

int main(int argc, char** argv) {
  if (argc < 2) return 2;
  std::string g = argv[1]; Inputs in(argc, argv);
  if (g == "iv_setlength" || g == "iv_shift" || g == "iv_collapse_end" || g == "iv_collapse_start" || g == "iv_ctor" || g == "iv_default" || g == "iv_fromlength") return mutators(g, in);
  if (g.rfind("iv_merge", 0) == 0) return merge(in);
  if (g.rfind("iv_", 0) == 0) return intervals(in);
  return utf8_replay(g, in);
}
