// Native replay for C01 / ev_tuple_name (scenario replay): two tuple binders whose component names concatenate to the same
// text, nested.  S1 = {(1,2)}, S2 = {(3,4)}; the value of the formula is decided by brute force in the comments.
#include "ccl/semantic/RSModel.h"
#include "replay_util.hpp"
using namespace ccl; using namespace ccl::semantic;
int main(int argc, char** argv) {
  if (argc < 2) return 2;
  RSModel m;
  const auto x1 = m.Emplace(CstType::base);
  const auto s1 = m.Emplace(CstType::structured, "\xE2\x84\xAC(X1\xC3\x97X1)");
  const auto s2 = m.Emplace(CstType::structured, "\xE2\x84\xAC(X1\xC3\x97X1)");
  TextInterpretation t{}; for (int i = 1; i <= 4; ++i) t.SetInterpretantFor(i, std::to_string(i)); m.Values().SetBasicText(x1, t);
  if (!m.Values().SetStructureData(s1, object::Factory::Set({ object::Factory::TupleV({1, 2}) })) || !m.Values().SetStructureData(s2, object::Factory::Set({ object::Factory::TupleV({3, 4}) }))) return 2;
  struct { const char* e; bool want; } cs[] = {
    // for the only (a,bc) = (1,2) and the only (ab,c) = (3,4): (1,2) in S1 and (3,4) in S2 -> TRUE
    { "\xE2\x88\x80(a,bc)\xE2\x88\x88S1 \xE2\x88\x80(ab,c)\xE2\x88\x88S2 ((a,bc)\xE2\x88\x88S1 & (ab,c)\xE2\x88\x88S2)", true },
    // (1,2) in S2 is false -> FALSE
    { "\xE2\x88\x80(a,bc)\xE2\x88\x88S1 \xE2\x88\x83(ab,c)\xE2\x88\x88S2 ((a,bc)\xE2\x88\x88S2 & (ab,c)\xE2\x88\x88S2)", false },
  };
  for (auto& c : cs) {
    const auto d = m.Emplace(CstType::axiom, c.e);
    if (m.GetParse(d).status != ParsingStatus::VERIFIED) { std::printf("'%s' is not accepted by the type checker; cannot replay\n", c.e); return 2; }
    m.Calculations().RecalculateAll();
    const auto v = m.Values().StatementFor(d);
    std::printf("%s = %s\n", c.e, v.has_value() ? (v.value() ? "TRUE" : "FALSE") : "no value");
    EXPECT(v.has_value() && v.value() == c.want, "'%s' evaluates to %s, its set-theoretic value is %s", c.e, v.has_value() ? (v.value() ? "TRUE" : "FALSE") : "no value", c.want ? "TRUE" : "FALSE");
  }
  return verdict();
}
