// Native replay for C05 / tk_ascii and gn_syntax (scenario replay): expressions using every binary token and the generator
// constructs are printed in ASCII and must re-parse there to the same tree.
#include "ccl/rslang/Parser.h"
#include "ccl/rslang/RSGenerator.h"
#include "replay_util.hpp"
using namespace ccl; using namespace ccl::rslang;
int main(int argc, char** argv) {
  if (argc < 2) return 2;
  for (const std::string e : { "1<2", "1>2", "1\xE2\x89\xA4" "2", "1\xE2\x89\xA5" "2", "1=2", "1\xE2\x89\xA0" "2", "1+2", "1-2", "1*2", "X1\xE2\x88\xAAX2", "X1\xE2\x88\xA9X2", "X1\\X2", "X1\xE2\x88\x86X2", "X1\xC3\x97X2",
                               "X1\xE2\x88\x88X2", "X1\xE2\x88\x89X2", "X1\xE2\x8A\x82X2", "X1\xE2\x8A\x86X2", "X1\xE2\x8A\x84X2", "\xE2\x84\xAC(X1)", "\xC2\xAC" "1=1", "1=1 & 2=2", "1=1 \xE2\x88\xA8 2=2", "1=1 \xE2\x87\x92 2=2", "1=1 \xE2\x87\x94 2=2",
                               "R{a:=X1 | a\xE2\x88\xAAX1}", "R{a:=X1 | 1=1 | a\xE2\x88\xAAX1}", "I{a | a:\xE2\x88\x88X1; b:=a}", "D{a\xE2\x88\x88X1 | a=a}", "\xE2\x88\x80" "a\xE2\x88\x88X1 a=a" }) {
    Parser p; if (!p.Parse(e, Syntax::MATH)) continue;
    const auto ascii = Generator::FromTree(p.AST(), Syntax::ASCII);
    Parser q; const bool ok = q.Parse(ascii, Syntax::ASCII);
    EXPECT(ok, "'%s' is printed in ASCII as '%s', which does not parse", e.c_str(), ascii.c_str());
    if (ok) EXPECT(Generator::FromTree(q.AST(), Syntax::MATH) == Generator::FromTree(p.AST(), Syntax::MATH), "'%s' printed in ASCII as '%s' re-parses to another expression", e.c_str(), ascii.c_str());
  }
  return verdict();
}
