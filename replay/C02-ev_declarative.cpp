// Native replay for C04 / ev_iter_refs_* (scenario replay, built with AddressSanitizer): D1 is the power set of a 7-element set
// (a lazy set with 128 elements, shared by every copy of the value); D{x in D1 | E y in D1 y = x} iterates D1 inside the
// predicate while the outer loop holds a reference into D1's element cache.  A sanitizer report in the child confirms.
#include "replay_util.hpp"
#include <sys/wait.h>
#include <unistd.h>
#include "ccl/rslang/Interpreter.h"
#include "ccl/rslang/Literals.h"
#include <iostream>
#include <map>
using namespace ccl::rslang; using ccl::object::Factory; using ccl::object::StructuredData;
struct Env final : TypeContext {
  std::map<std::string, ExpressionType> types{};
  std::map<std::string, StructuredData> values{};
  const ExpressionType* TypeFor(const std::string& name) const final { auto it = types.find(name); return it == types.end() ? nullptr : &it->second; }
  const FunctionArguments* FunctionArgsFor(const std::string&) const final { return nullptr; }
  std::optional<TypeTraits> TraitsFor(const Typification& type) const final { if (type == Typification::Integer()) return TraitsIntegral; return TraitsNominal; }
};
extern "C" const char* __asan_default_options() { return "exitcode=42:detect_leaks=0"; }
static int scenario() {
  Env env{};
  env.types.emplace("X1", "B(X1)"_t); env.values.emplace("X1", Factory::SetV({ 1, 2, 3, 4, 5, 6, 7 }));
  env.types.emplace("D1", "BB(X1)"_t); env.values.emplace("D1", Factory::Boolean(env.values.at("X1")));
  Interpreter interpreter{ env, [](const std::string&) -> const SyntaxTree* { return nullptr; },
    [&env](const std::string& name) -> std::optional<StructuredData> { auto it = env.values.find(name); if (it == env.values.end()) return std::nullopt; return it->second; } };
  const auto v = interpreter.Evaluate(R"(D{x \in D1 | \E y \in D1 y \eq x})", Syntax::ASCII);
  if (!v.has_value()) { std::cout << "no value\n"; for (auto& e : interpreter.Errors().All()) std::cout << std::hex << e.eid << "\n"; return 2; }
  const auto& d = std::get<StructuredData>(*v);
  std::cout << "cardinality " << d.B().Cardinality() << " (expected 128)\n";
  return d.B().Cardinality() == 128 ? 0 : 1;
}

int main(int argc, char** argv) {
  if (argc < 2) return 2;
  const auto pid = fork();
  if (pid == 0) _exit(scenario());
  int status = 0; waitpid(pid, &status, 0);
  if (WIFEXITED(status) && WEXITSTATUS(status) == 2) return 2;
  EXPECT(WIFEXITED(status) && WEXITSTATUS(status) == 0, "the evaluation of D{x in D1 | E y in D1 y = x} over a lazy power set %s", WIFSIGNALED(status) ? "crashed" : (WEXITSTATUS(status) == 42 ? "is reported by AddressSanitizer (use after free)" : "gave a wrong value"));
  return verdict();
}
