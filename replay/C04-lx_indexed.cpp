// Native replay for C04 / lx_indexed: a projection / filter spelled with index 0 only.  Parsing and printing it must
// return normally (the printer reads the first index of the token); a crash (signal) or a throw confirms the violation.
#include "ccl/rslang/Parser.h"
#include "ccl/rslang/RSGenerator.h"
#include "replay_util.hpp"
using namespace ccl; using namespace ccl::rslang;
int main(int argc, char** argv) {
  if (argc < 2) return 2;
  Inputs in(argc, argv);
  if (in.I("in_tuple_n") != 0) { std::printf("counterexample is not an empty index list\n"); return 2; }
  for (const std::string e : { "pr0(X1)", "Pr0(X1)", "Fi0[X1](X1)", "X1=pr0,0(X1)" }) {
    try { Parser p; const bool ok = p.Parse(e, Syntax::ASCII);
          if (ok) { const auto text = Generator::FromTree(p.AST(), Syntax::MATH); EXPECT(!text.empty(), "'%s' printed as an empty text", e.c_str()); }
          EXPECT(ok == !p.Errors().HasCriticalErrors(), "'%s': parse verdict %d but critical errors %d", e.c_str(), (int)ok, (int)p.Errors().HasCriticalErrors()); }
    catch (const std::exception& ex) { EXPECT(false, "'%s' threw %s", e.c_str(), ex.what()); }
  }
  return verdict();
}
