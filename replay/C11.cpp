// Native replay for C11 (no stale calculated values).  The contract obligations are call-protocol
// obligations over an abstract dependency graph; the replay runs the obligation's scenario on the real
// RSModel: a chain X1 -> D1 -> D2 (plus X2), everything calculated, then the mutator of the failed
// group, and reports a value as STALE when a dependant still shows a calculated value that differs
// from what RecalculateAll() gives afterwards.
#include "ccl/semantic/RSModel.h"
#include "replay_util.hpp"
using namespace ccl; using namespace ccl::semantic;
using ccl::object::StructuredData;
struct Snap { bool has; StructuredData v; std::optional<bool> st; };
static Snap snap(RSModel& m, EntityUID d) { auto o = m.Values().SDataFor(d); Snap s{ o.has_value(), o.has_value() ? o.value() : StructuredData{}, m.Values().StatementFor(d) }; return s; }
static int g_stale = 0;
// generic stale check: constituents in `watch` that show a value now must show the same value after RecalculateAll
static void check_stale(RSModel& m, const std::vector<EntityUID>& watch, const char* what) {
  std::vector<Snap> before; for (auto d : watch) before.push_back(snap(m, d));
  m.Calculations().RecalculateAll();
  for (size_t i = 0; i < watch.size(); ++i) {
    Snap after = snap(m, watch[i]);
    if (before[i].has) EXPECT(after.has && before[i].v == after.v, "%s: constituent #%zu kept a calculated value after the change that recalculation does not reproduce (stale)", what, (size_t)watch[i]);
    if (before[i].st.has_value()) EXPECT(after.st.has_value() && before[i].st.value() == after.st.value(), "%s: constituent #%zu kept a truth value after the change that recalculation does not reproduce (stale)", what, (size_t)watch[i]);
  }
}
// scenario 1: chain of terms X1 -> D1 -> D2
static int scenario_terms(const std::string& g, int variant = 0) {
  RSModel m;
  const auto x1 = m.Emplace(CstType::base), x2 = m.Emplace(CstType::base);
  const auto d1 = m.Emplace(CstType::term, "X1");
  const auto d2 = m.Emplace(CstType::term, "D1\xE2\x88\xAA" "D1");
  const auto a1 = m.Emplace(CstType::axiom, "card(D1)=2");
  m.Values().SetBasicText(x1, TextInterpretation{ { "a", "b" } });
  m.Values().SetBasicText(x2, TextInterpretation{ { "c" } });
  m.Calculations().RecalculateAll();
  if (!m.Values().SDataFor(d2).has_value()) { std::printf("scenario did not calculate D2; cannot replay\n"); return 2; }
  std::vector<EntityUID> watch{ d1, d2, a1 };
  if (g == "pr_erase") { m.Erase(d1); watch = { d2, a1 }; }
  else if (g == "pr_setexpr") { m.SetExpressionFor(d1, "X2"); watch = { d2, a1 }; }
  else if (g == "pr_setbasictext" && variant == 0) { TextInterpretation t{}; t.SetInterpretantFor(5, "p"); t.SetInterpretantFor(7, "q"); m.Values().SetBasicText(x1, t); }   // other keys
  else if (g == "pr_setbasictext") { const auto* old = m.Values().TextFor(x1); if (old == nullptr) return 2; TextInterpretation t = *old; t.PushBack("appended"); m.Values().SetBasicText(x1, t); }   // same keys and one more
  else if (g == "pr_addbasic") { m.Values().AddBasicElement(x1, "z"); }
  else if (g == "pr_resetdata" || g == "pr_resetfor") { m.Values().ResetDataFor(x1); }
  else return 2;
  check_stale(m, watch, "terms");
  return 0;
}
// scenario 2: a term-function between the data and the terms: X1 -> F1 -> D1 -> D2 (functions are never "calculated" themselves)
static int scenario_function(const std::string& g) {
  RSModel m;
  const auto x1 = m.Emplace(CstType::base);
  const auto f1 = m.Emplace(CstType::function, "[a\xE2\x88\x88\xE2\x84\xAC(X1)] a\\X1");
  const auto d1 = m.Emplace(CstType::term, "F1[X1]");
  const auto d2 = m.Emplace(CstType::term, "D1\xE2\x88\xAA" "D1");
  m.Values().SetBasicText(x1, TextInterpretation{ { "a", "b", "c" } });
  m.Calculations().RecalculateAll();
  if (!m.Values().SDataFor(d1).has_value()) return 2;
  if (g == "pr_setexpr") m.SetExpressionFor(f1, "[a\xE2\x88\x88\xE2\x84\xAC(X1)] a\xE2\x88\xAAX1");
  else if (g == "pr_erase") m.Erase(f1);
  else return 2;
  check_stale(m, { d1, d2 }, "function");
  return 0;
}
// scenario 3: a structure over a base set holds data; the base set is erased (the structure's definition loses its type)
static int scenario_structure(const std::string& g) {
  if (g != "pr_prune" && g != "pr_erase") return 2;
  RSModel m;
  const auto x1 = m.Emplace(CstType::base);
  const auto s1 = m.Emplace(CstType::structured, "\xE2\x84\xAC(X1)");
  TextInterpretation t{}; t.SetInterpretantFor(1, "a"); t.SetInterpretantFor(2, "b"); m.Values().SetBasicText(x1, t);
  if (!m.Values().SetStructureData(s1, object::Factory::SetV({ 1, 2 }))) { std::printf("scenario could not set the structure data; cannot replay\n"); return 2; }
  try { m.Erase(x1); }
  catch (const std::exception& e) { EXPECT(false, "structure: RSModel::Erase of the base set threw %s while pruning the structure that depends on it", e.what()); }
  const auto left = m.Values().SDataFor(s1);
  EXPECT(!left.has_value() || left->B().IsEmpty(), "structure: after its base set was erased the structure still shows data %s", left.has_value() ? left->ToString().c_str() : "");
  return 0;
}
int main(int argc, char** argv) {
  if (argc < 2) return 2;
  std::string g = argv[1];
  if (g == "pr_prune") { if (scenario_structure(g) == 2) return 2; return verdict(); }
  if (g == "pr_resetdependants") return 1;
  int a = scenario_terms(g); if (g == "pr_setbasictext") scenario_terms(g, 1); int b = scenario_function(g); int c = scenario_structure(g);
  if (a == 2 && b == 2 && c == 2) return 2;
  return verdict();
}
