// helpers for native replay drivers: parse `lhs=value` arguments taken from a CBMC trace
#pragma once
#include <string>
#include <map>
#include <vector>
#include <cstdlib>
#include <cstdio>
#include <cstring>
#include <csignal>
struct Inputs {
  std::map<std::string, std::string> kv;
  Inputs(int argc, char** argv) {
    for (int i = 2; i < argc; ++i) {
      std::string s = argv[i]; auto p = s.find('=');
      if (p != std::string::npos) kv[s.substr(0, p)] = s.substr(p + 1);
    }
  }
  bool has(const std::string& k) const { return kv.count(k) != 0; }
  long long I(const std::string& k, long long d = 0) const {
    auto it = kv.find(k); if (it == kv.end()) return d;
    const std::string& v = it->second;
    if (v == "TRUE" || v == "true") return 1;
    if (v == "FALSE" || v == "false") return 0;
    if (v.size() >= 3 && v[0] == '\'' ) return (unsigned char)v[1];
    return std::strtoll(v.c_str(), nullptr, 10);
  }
  // bytes of array `name[0..n)`; missing elements default to fill
  std::string bytes(const std::string& name, size_t n, char fill = 'a') const {
    std::string out(n, fill);
    for (size_t i = 0; i < n; ++i) {
      auto k = name + "[" + std::to_string(i) + "]";
      if (has(k)) out[i] = (char)I(k);
      else { auto k2 = name + "[" + std::to_string(i) + "l]"; if (has(k2)) out[i] = (char)I(k2); }
    }
    return out;
  }
};
static int g_bad = 0;
#define EXPECT(cond, ...) do { if (!(cond)) { ++g_bad; std::printf("DISAGREE: " __VA_ARGS__); std::printf("\n"); } } while (0)
static inline int verdict() {
  if (g_bad) { std::printf("replay: real code disagrees with the oracle in %d clause(s)\n", g_bad); return 0; }
  std::printf("replay: real code agrees with the oracle on this input\n"); return 1;
}
