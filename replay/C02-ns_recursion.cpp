// Native replay for C02 / ns_* (scenario replay): expressions with a tuple binder in every binding construct (full and short
// recursion, declarative term, imperative block, quantifier) whose scope mentions the components.  Each is accepted by the
// checker, then evaluated through the public pipeline (check -> normalise -> evaluate) in a child process: the value must
// exist, fit the reported type and be the set-theoretic one; a crash of the child confirms the violation.
#include "ccl/rslang/Interpreter.h"
#include "ccl/rslang/RSErrorCodes.hpp"

#include <sys/wait.h>
#include <unistd.h>

#include <cstdio>
#include <map>
#include <string>
#include "replay_util.hpp"

using namespace ccl::rslang;
using ccl::object::Factory;
using ccl::object::StructuredData;

namespace {

struct Env final : TypeContext {
  std::map<std::string, ExpressionType> types{};
  std::map<std::string, StructuredData> data{};

  const ExpressionType* TypeFor(const std::string& name) const override {
    const auto it = types.find(name);
    return it == types.end() ? nullptr : &it->second;
  }
  const FunctionArguments* FunctionArgsFor(const std::string& /*name*/) const override {
    return nullptr;
  }
  std::optional<TypeTraits> TraitsFor(const Typification& type) const override {
    if (type == Typification::Integer()) {
      return TraitsIntegral;
    } else if (type.IsElement() && types.contains(type.E().baseID)) {
      return TraitsNominal;
    } else {
      return std::nullopt;
    }
  }
};

struct Scenario {
  std::string expr;
  StructuredData expected;
};

// returns 0 if the property holds for this scenario
int RunScenario(const Scenario& sc) {
  Env env{};
  env.types.insert({ "X1", Typification{ "X1" }.Bool() });
  env.data.insert({ "X1", Factory::SetV({ 1, 2, 3 }) });

  // 1. the checker accepts the expression and reports a typification
  Parser parser{};
  if (!parser.Parse(sc.expr, Syntax::ASCII)) {
    std::printf("  parse failed (demo bug)\n");
    return 10;
  }
  TypeAuditor auditor{ env, parser.log.SendReporter() };
  if (!auditor.CheckType(parser.AST())) {
    std::printf("  checker rejected the expression (demo bug)\n");
    return 11;
  }
  const auto* type = std::get_if<Typification>(&auditor.GetType());
  if (type == nullptr) {
    std::printf("  checker reported LOGIC (demo bug)\n");
    return 12;
  }
  std::printf("  checker accepted, type = %s\n", type->ToString().c_str());
  std::fflush(stdout);

  // 2. evaluation through the public pipeline (check -> normalise -> evaluate)
  Interpreter interpreter{
    env,
    [](const std::string&) -> const SyntaxTree* { return nullptr; },
    [&env](const std::string& name) -> std::optional<StructuredData> {
      const auto it = env.data.find(name);
      return it == env.data.end() ? std::nullopt : std::optional<StructuredData>{ it->second };
    }
  };
  const auto value = interpreter.Evaluate(sc.expr, Syntax::ASCII);
  for (const auto& err : interpreter.Errors().All()) {
    std::printf("  reported error 0x%X\n", static_cast<unsigned>(err.eid));
    if (err.eid == static_cast<uint32_t>(ValueEID::unknownError)) {
      std::printf("  VIOLATION: unknown evaluation error\n");
      return 1;
    }
  }
  if (!value.has_value()) {
    std::printf("  VIOLATION: accepted expression over finite literal data produced no value\n");
    return 2;
  }
  if (!std::holds_alternative<StructuredData>(value.value())) {
    std::printf("  VIOLATION: truth value for a non-LOGIC type\n");
    return 3;
  }
  const auto& data = std::get<StructuredData>(value.value());
  std::printf("  value = %s\n", data.ToString().c_str());
  if (!ccl::object::CheckCompatible(data, *type)) {
    std::printf("  VIOLATION: value does not have the structure of %s\n", type->ToString().c_str());
    return 4;
  }
  if (data != sc.expected) {
    std::printf("  VIOLATION: wrong value, expected %s\n", sc.expected.ToString().c_str());
    return 5;
  }
  return 0;
}

} // namespace

int main(int argc, char** argv) {
  if (argc < 2) return 2;
  const std::vector<Scenario> scenarios{
    { R"(R{(a,b) \assign (0,1) | a \ls 3 | (a \plus 1, b \plus 1)})", Factory::Tuple({ Factory::Val(3), Factory::Val(4) }) },
    { R"(R{(s,n) \assign (X1, 0) | n \ls 2 | (s \setminus s, n \plus 1)})", Factory::Tuple({ Factory::EmptySet(), Factory::Val(2) }) },
    { R"(R{(s,t) \assign (X1, X1) | (s \setminus s, t)})", Factory::Tuple({ Factory::EmptySet(), Factory::SetV({ 1, 2, 3 }) }) },
    { R"(D{(a,b) \in X1*X1 | a \eq b})", Factory::Set({ Factory::Tuple({ Factory::Val(1), Factory::Val(1) }), Factory::Tuple({ Factory::Val(2), Factory::Val(2) }), Factory::Tuple({ Factory::Val(3), Factory::Val(3) }) }) },
    { R"(I{(a,b) | (a,b) \from X1*X1; a \eq b})", Factory::Set({ Factory::Tuple({ Factory::Val(1), Factory::Val(1) }), Factory::Tuple({ Factory::Val(2), Factory::Val(2) }), Factory::Tuple({ Factory::Val(3), Factory::Val(3) }) }) },
    { R"(D{x \in X1 | \A (a,b) \in X1*X1 a \eq a})", Factory::SetV({ 1, 2, 3 }) },
    { R"(D{x \in X1 | \E (a,b),(c,d) \in X1*X1 (a \eq x \and c \eq x)})", Factory::SetV({ 1, 2, 3 }) },
    { R"(D{x \in X1 | \A (a,b),y \in X1*X1 (a,b) \in X1*X1})", Factory::SetV({ 1, 2, 3 }) },
  };
  for (const auto& sc : scenarios) {
    std::printf("%s\n", sc.expr.c_str());
    std::fflush(stdout);
    const auto pid = fork();
    if (pid == 0) { alarm(20); const int rc = RunScenario(sc); std::fflush(stdout); _exit(rc); }
    int status = 0;
    waitpid(pid, &status, 0);
    if (WIFSIGNALED(status)) EXPECT(false, "evaluation of the accepted expression %s crashed with signal %d", sc.expr.c_str(), WTERMSIG(status));
    else if (WEXITSTATUS(status) >= 10) { std::printf("scenario not accepted by this build: %s\n", sc.expr.c_str()); }
    else EXPECT(WEXITSTATUS(status) == 0, "%s: see the VIOLATION line above (code %d)", sc.expr.c_str(), WEXITSTATUS(status));
  }
  return verdict();
}
