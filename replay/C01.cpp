// Native replay for C01 (local evaluation rules): evaluate `a OP b` through the real model API and compare with
// the mathematical result; a value outside int32 must not be reported as some other (wrapped) number.
#include "ccl/semantic/RSModel.h"
#include "replay_util.hpp"
using namespace ccl; using namespace ccl::semantic;
static std::string lit(long long v) { return v >= 0 ? std::to_string(v) : "(0-" + std::to_string(-v) + ")"; }
int main(int argc, char** argv) {
  if (argc < 2) return 2;
  std::string g = argv[1]; Inputs in(argc, argv);
  if (g != "ev_arith" && g != "ev_mult") return 2;
  long long a = in.I("in_int[0]"), b = in.I("in_int[1]"); long long P = in.I("in_parent.id");
  // token ids: PLUS 266, MINUS 267, MULTIPLY 268 (RSToken.h); fall back to all three when unknown
  std::vector<std::pair<std::string, long long>> ops;
  if (g == "ev_mult" || P == 268) ops.push_back({ "*", a * b }); else if (P == 267) ops.push_back({ "-", a - b }); else ops.push_back({ "+", a + b });
  for (auto& [op, want] : ops) {
    RSModel m;
    const auto d = m.Emplace(CstType::term, lit(a) + op + lit(b));
    m.Calculations().RecalculateAll();
    auto v = m.Values().SDataFor(d);
    const bool fits = want >= -2147483648LL && want <= 2147483647LL;
    if (v.has_value() && v->IsElement()) {
      long long got = v->E().Value();
      std::printf("%s%s%s evaluates to %lld (mathematically %lld)\n", lit(a).c_str(), op.c_str(), lit(b).c_str(), got, want);
      EXPECT(fits && got == want, "integer operation yields %lld where the mathematical value is %lld (silent int32 wrap-around)", got, want);
    } else {
      std::printf("%s%s%s has no value (error reported)\n", lit(a).c_str(), op.c_str(), lit(b).c_str());
      EXPECT(!fits, "in-range operation %s%s%s produced no value", lit(a).c_str(), op.c_str(), lit(b).c_str());
    }
  }
  return verdict();
}
