// Native replay for C16 / tp_unpack, tp_pack (scenario replay): tuples of arity >= 3 with a several-element set in a non-last
// position (the set continues on later rows, so the row the tuple starts on is shorter than the arity), top level and nested.
#include "ccl/rslang/SDataCompact.h"
#include "ccl/rslang/StructuredData.h"
#include "ccl/rslang/Typification.h"
#include "ccl/rslang/Literals.h"

#include <iostream>
#include <string>
#include <vector>
#include "replay_util.hpp"

using ccl::object::Factory;
using ccl::object::SDCompact;
using ccl::object::StructuredData;
using ccl::rslang::Typification;
using ccl::rslang::operator""_t;

namespace {

int failures = 0;

std::string Show(const SDCompact::Data& table) {
  std::string out = "{";
  for (const auto& row : table) {
    out += " {";
    for (const auto cell : row) {
      out += " " + std::to_string(cell);
    }
    out += " }";
  }
  return out + " }";
}

void RoundTrip(const Typification& type, const StructuredData& value) {
  if (!ccl::object::CheckCompatible(value, type)) {
    std::cout << "BAD DEMO: value " << value.ToString() << " not compatible with " << type.ToString() << "\n";
    ++failures;
    return;
  }
  const auto table = SDCompact::FromSData(value, type).data;
  const auto back = SDCompact::Unpack(table, type);
  if (!back.has_value()) {
    std::cout << "FAIL " << type.ToString() << " value " << value.ToString()
              << ": packed table " << Show(table) << " is rejected by Unpack\n";
    ++failures;
  } else if (back.value() != value) {
    std::cout << "FAIL " << type.ToString() << " value " << value.ToString()
              << ": packed table " << Show(table) << " unpacks to " << back->ToString() << "\n";
    ++failures;
  } else {
    std::cout << "ok   " << type.ToString() << " value " << value.ToString() << "\n";
  }
}

} // namespace

int main(int argc, char** argv) {
  if (argc < 2) return 2;
  const auto v1 = Factory::Val(1);
  const auto v2 = Factory::Val(5);
  const auto v3 = Factory::Val(68);
  const auto empty = Factory::EmptySet();
  const auto s12 = Factory::Set({ v1, v2 });
  const auto s13 = Factory::Set({ v1, v3 });
  const auto s1 = Factory::Set({ v1 });

  // shapes that the shipped unit tests already exercise (arity 2)
  RoundTrip("B(B(X1)*X1)"_t, Factory::Decartian({ Factory::Set({ s12, s13 }), s12 }));
  RoundTrip("B(X1*B(X1))"_t, Factory::Decartian({ s12, Factory::Set({ s12, empty }) }));

  // top-level tuples containing sets
  RoundTrip("B(X1)*X1"_t, Factory::Tuple({ s12, v3 }));
  RoundTrip("B(X1)*X1*X1"_t, Factory::Tuple({ s1, v2, v3 }));
  RoundTrip("B(X1)*X1*X1"_t, Factory::Tuple({ empty, v2, v3 }));
  RoundTrip("B(X1)*X1*X1"_t, Factory::Tuple({ s12, v2, v3 }));
  RoundTrip("X1*B(X1)*X1"_t, Factory::Tuple({ v1, s12, v3 }));
  RoundTrip("X1*X1*B(X1)"_t, Factory::Tuple({ v1, v2, s12 }));
  RoundTrip("B(X1)*B(X1)*B(X1)"_t, Factory::Tuple({ s12, empty, s13 }));

  // sets of arity-3 tuples with a several-element set in a non-last position
  RoundTrip("B(B(X1)*X1*X1)"_t, Factory::Set({ Factory::Tuple({ s12, v1, v2 }) }));
  RoundTrip("B(B(X1)*X1*X1)"_t,
            Factory::Set({ Factory::Tuple({ s12, v1, v2 }), Factory::Tuple({ empty, v1, v2 }), Factory::Tuple({ s1, v3, v3 }) }));
  RoundTrip("B(X1*B(X1)*X1*X1)"_t, Factory::Set({ Factory::Tuple({ v1, s13, v2, v3 }) }));

  // nested tuple whose first component is a several-element set of sets
  RoundTrip("B(X1*(BB(X1)*X1*X1))"_t,
            Factory::Set({ Factory::Tuple({ v1, Factory::Tuple({ Factory::Set({ s12, s13, empty }), v2, v3 }) }) }));

  EXPECT(failures == 0, "%d value(s) do not survive FromSData -> Unpack (see the FAIL lines)", failures);
  return verdict();
}
