// Native replay for C17 / ex_protocol (scenario replay): texts with adjacent, spaced and multi-byte-separated references;
// ExtractAll must return every well-formed reference with the range of its own text.
#include "ccl/lang/Reference.h"
#include "replay_util.hpp"
using namespace ccl; using namespace ccl::lang;
int main(int argc, char** argv) {
  if (argc < 2) return 2;
  struct Case { std::string text; size_t count; };
  for (const auto& c : { Case{ "@{X1|sing,nomn}@{X2|sing,nomn}", 2 }, Case{ "a@{X1|sing,nomn}@{-1|word}b", 2 }, Case{ "\xE2\x84\xAC@{X2|sing,nomn}@{X1|sing,nomn}@{X2|sing,nomn}", 3 },
                        Case{ "@{X1|sing,nomn} @{X2|sing,nomn}", 2 }, Case{ "@{X1|sing,nomn}\xE2\x84\xAC@{X2|sing,nomn}", 2 } }) {
    const auto refs = Reference::ExtractAll(c.text);
    EXPECT(refs.size() == c.count, "ExtractAll(\"%s\") finds %zu references, the text has %zu", c.text.c_str(), refs.size(), c.count);
    for (const auto& r : refs) {
      const auto piece = Substr(c.text, r.position);
      EXPECT(piece.size() >= 2 && piece.front() == '@' && piece.back() == '}', "the range of a reference of \"%s\" delimits '%s'", c.text.c_str(), std::string(piece).c_str());
    }
  }
  return verdict();
}
