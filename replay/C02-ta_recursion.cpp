// Native replay for C02 / ta_recursion (scenario replay: the counterexample is a sequence of ghost type shapes, which a
// driver cannot turn into source text in general): recursions whose step never reproduces the type it is typed under.
// The type checker must reject them; one that is accepted is evaluated in a child process — a crash there is the fault
// the property excludes, a value whose structure differs from the reported type likewise.
#include "ccl/rslang/Auditor.h"
#include "ccl/rslang/Interpreter.h"
#include "ccl/rslang/Literals.h"
#include "replay_util.hpp"
#include <sys/wait.h>
#include <unistd.h>
using namespace ccl; using namespace ccl::rslang;
int main(int argc, char** argv) {
  if (argc < 2) return 2;
  struct Ctx final : public TypeContext {
    const ExpressionType* TypeFor(const std::string&) const override { return nullptr; }
    const FunctionArguments* FunctionArgsFor(const std::string&) const override { return nullptr; }
    std::optional<TypeTraits> TraitsFor(const Typification& t) const override { if (t == Typification::Integer()) return TraitsIntegral; return std::nullopt; }
  } ctx;
  for (const std::string e : { "R{a:=\xE2\x88\x85 | {a}}", "R{a:=\xE2\x88\x85 | {{a}}}", "R{a:=\xE2\x88\x85 | (a,a)}" }) {
    Auditor auditor{ ctx, [](const std::string&) { return ValueClass::value; }, [](const std::string&) -> const SyntaxTree* { return nullptr; } };
    const bool accepted = auditor.CheckType(e, Syntax::MATH);
    std::printf("%s: %s\n", e.c_str(), accepted ? "ACCEPTED" : "rejected");
    if (!accepted) continue;
    const auto type = auditor.GetType();
    const pid_t pid = fork();
    if (pid == 0) {
      alarm(20);      // the evaluation nests sets without bound: it ends in a stack overflow only after minutes
      Interpreter ip{ ctx, [](const std::string&) -> const SyntaxTree* { return nullptr; }, [](const std::string&) -> std::optional<object::StructuredData> { return std::nullopt; } };
      const auto v = ip.Evaluate(e, Syntax::MATH);
      if (!v.has_value()) _exit(0);
      const bool fits = std::holds_alternative<bool>(v.value()) ? std::holds_alternative<LogicT>(type)
                        : (std::holds_alternative<Typification>(type) && object::CheckCompatible(std::get<object::StructuredData>(v.value()), std::get<Typification>(type)));
      _exit(fits ? 0 : 3);
    }
    int st = 0; waitpid(pid, &st, 0);
    if (WIFSIGNALED(st) && WTERMSIG(st) == SIGALRM) std::printf("  evaluation still running after 20 s (cut)\n");
    EXPECT(!(WIFSIGNALED(st) && WTERMSIG(st) != SIGALRM), "'%s' is accepted (type %s) and its evaluation is killed by signal %d", e.c_str(), std::holds_alternative<Typification>(type) ? std::get<Typification>(type).ToString().c_str() : "LOGIC", WTERMSIG(st));
    EXPECT(!(WIFEXITED(st) && WEXITSTATUS(st) == 3), "'%s' is accepted and evaluates to a value that does not have the structure of the reported type", e.c_str());
    EXPECT(false, "'%s' is accepted although the type of its step never stabilises", e.c_str());
  }
  // recursions that ARE well typed: the value (the initial value when the condition fails at once, else a value of the step)
  // must have the structure of the reported type
  for (const std::string e : { "R{a:={{1}} | 1=2 | \xE2\x88\x85}", "R{a:=\xE2\x88\x85 | 1=2 | {{1}}}", "R{a:={{1}} | \xE2\x88\x85}", "R{a:=\xE2\x88\x85 | a\xE2\x88\xAA{{1}}}" }) {
    Auditor auditor{ ctx, [](const std::string&) { return ValueClass::value; }, [](const std::string&) -> const SyntaxTree* { return nullptr; } };
    if (!auditor.CheckType(e, Syntax::MATH)) { std::printf("%s: rejected\n", e.c_str()); continue; }
    const auto type = auditor.GetType();
    Interpreter ip{ ctx, [](const std::string&) -> const SyntaxTree* { return nullptr; }, [](const std::string&) -> std::optional<object::StructuredData> { return std::nullopt; } };
    const auto v = ip.Evaluate(e, Syntax::MATH);
    if (!v.has_value() || !std::holds_alternative<object::StructuredData>(v.value()) || !std::holds_alternative<Typification>(type)) continue;
    EXPECT(object::CheckCompatible(std::get<object::StructuredData>(v.value()), std::get<Typification>(type)), "'%s' is typed %s but evaluates to %s, which does not have that structure", e.c_str(), std::get<Typification>(type).ToString().c_str(), std::get<object::StructuredData>(v.value()).ToString().c_str());
  }
  return verdict();
}
